"""Small finite-automata kit: NFA (dict state -> [(sym|None, state)]) -> DFA, minimisation, substitution of a
symbol by a language, inclusion with all frontier differences."""
from collections import deque


def eclose(delta, states):
    st = list(states)
    seen = set(states)
    while st:
        x = st.pop()
        for (sym, y) in delta.get(x, ()):
            if sym is None and y not in seen:
                seen.add(y)
                st.append(y)
    return frozenset(seen)


class DFA:
    """partial DFA: start 0..n-1, trans[(i, sym)] = j, acc set"""

    def __init__(self, start, trans, acc, n):
        self.start, self.trans, self.acc, self.n = start, trans, acc, n
        self._out = None

    def out(self, i):
        if self._out is None:
            o = {}
            for (a, s), b in self.trans.items():
                o.setdefault(a, []).append((s, b))
            self._out = o
        return self._out.get(i, ())

    def symbols(self):
        return {s for (_, s) in self.trans}

    def live(self):
        """states from which an accepting state is reachable"""
        rev = {}
        for (a, s), b in self.trans.items():
            rev.setdefault(b, []).append(a)
        seen = set(self.acc)
        st = list(self.acc)
        while st:
            x = st.pop()
            for y in rev.get(x, ()):
                if y not in seen:
                    seen.add(y)
                    st.append(y)
        return seen

    def is_empty(self):
        return self.start not in self.live()

    def as_nfa(self, tag):
        delta = {}
        for (a, s), b in self.trans.items():
            delta.setdefault((tag, a), []).append((s, (tag, b)))
        return {(tag, self.start)}, delta, {(tag, a) for a in self.acc}

    def without_empty_word(self):
        if self.start not in self.acc:
            return self
        n = self.n
        trans = dict(self.trans)
        for (s, b) in self.out(self.start):
            trans[(n, s)] = b
        return minimize(DFA(n, trans, set(self.acc), n + 1))


def determinize(starts, delta, accepts, limit=60000):
    single = {}

    def close1(x):
        c = single.get(x)
        if c is None:
            seen = {x}
            st = [x]
            while st:
                y = st.pop()
                for (sym, z) in delta.get(y, ()):
                    if sym is None and z not in seen:
                        seen.add(z)
                        st.append(z)
            c = single[x] = frozenset(seen)
        return c

    def close(xs):
        out = set()
        for x in xs:
            if x not in out:
                out |= close1(x)
        return frozenset(out)
    s0 = close(starts)
    ids = {s0: 0}
    trans = {}
    acc = set()
    dq = deque([s0])
    while dq:
        S = dq.popleft()
        i = ids[S]
        if not S.isdisjoint(accepts):
            acc.add(i)
        moves = {}
        for x in S:
            for (sym, y) in delta.get(x, ()):
                if sym is not None:
                    moves.setdefault(sym, set()).add(y)
        for sym, ys in moves.items():
            T = close(ys)
            j = ids.get(T)
            if j is None:
                if len(ids) > limit:
                    raise MemoryError("DFA too large")
                j = ids[T] = len(ids)
                dq.append(T)
            trans[(i, sym)] = j
    return DFA(0, trans, acc, len(ids))


def minimize(d):
    """trim dead states, then Moore partition refinement"""
    live = d.live()
    # reachable
    reach = {d.start}
    st = [d.start]
    while st:
        x = st.pop()
        for (s, y) in d.out(x):
            if y not in reach:
                reach.add(y)
                st.append(y)
    keep = reach & live
    if d.start not in keep:
        return DFA(0, {}, set(), 1)
    trans = {(a, s): b for (a, s), b in d.trans.items() if a in keep and b in keep}
    outs = {}
    for (a, s), b in trans.items():
        outs.setdefault(a, []).append((s, b))
    part = {x: (1 if x in d.acc else 0) for x in keep}
    while True:
        sig = {}
        for x in keep:
            sig[x] = (part[x], tuple(sorted(((str(s), part[b]) for (s, b) in outs.get(x, ())))))
        ids = {}
        newpart = {}
        for x in sorted(keep, key=lambda z: (sig[z], z)):
            newpart[x] = ids.setdefault(sig[x], len(ids))
        if len(ids) == len(set(part.values())):
            part = newpart
            break
        part = newpart
    # renumber with start = 0
    order = {}
    dq = deque([part[d.start]])
    order[part[d.start]] = 0
    rep = {}
    for x in keep:
        rep.setdefault(part[x], x)
    t2 = {}
    while dq:
        c = dq.popleft()
        x = rep[c]
        for (s, b) in sorted(outs.get(x, ()), key=lambda z: str(z[0])):
            cb = part[b]
            if cb not in order:
                order[cb] = len(order)
                dq.append(cb)
            t2[(order[c], s)] = order[cb]
    acc = {order[part[x]] for x in keep if x in d.acc and part[x] in order}
    return DFA(0, t2, acc, len(order))


def substitute(d, lang_of, tag=()):
    """NFA of d with every symbol s for which lang_of(s) is not None replaced by that language (a DFA); each
    occurrence gets its own copy."""
    starts, delta, accepts = set(), {}, set()
    starts.add((tag, "s", d.start))
    for a in range(d.n):
        pass
    k = 0
    for (a, s), b in d.trans.items():
        sub = lang_of(s)
        if sub is None:
            delta.setdefault((tag, "s", a), []).append((s, (tag, "s", b)))
        else:
            k += 1
            ct = (tag, "c", k)
            cs, cd, ca = sub.as_nfa(ct)
            for x, outs in cd.items():
                delta.setdefault(x, []).extend(outs)
            for x in cs:
                delta.setdefault((tag, "s", a), []).append((None, x))
            for x in ca:
                delta.setdefault(x, []).append((None, (tag, "s", b)))
    accepts = {(tag, "s", a) for a in d.acc}
    return starts, delta, accepts


def differences(A, B, limit=200):
    """All frontier differences of L(A) - L(B): list of (prefix, sym) where prefix is a shortest word leading to the
    pair, and sym is a symbol A can take towards acceptance that B cannot (or None: A accepts here, B does not).
    Returned grouped by B-side state so one documented position yields one entry per symbol."""
    alive = A.live()
    blive = B.live()
    start = (A.start, B.start)
    prev = {start: None}
    dq = deque([start])
    found = {}

    def word(p):
        w = []
        while prev[p] is not None:
            p, s = prev[p]
            w.append(s)
        return tuple(reversed(w))
    if A.start not in alive:
        return []
    while dq:
        p = dq.popleft()
        x, y = p
        if x in A.acc and y not in B.acc:
            found.setdefault((y, None), word(p))
        for (s, x2) in sorted(A.out(x), key=lambda z: str(z[0])):
            if x2 not in alive:
                continue
            y2 = B.trans.get((y, s))
            if y2 is None or y2 not in blive:
                found.setdefault((y, s), word(p))
                continue
            n = (x2, y2)
            if n not in prev:
                prev[n] = (p, s)
                dq.append(n)
        if len(found) > limit:
            break
    return sorted(((w, s) for (y, s), w in found.items()), key=lambda z: (len(z[0]), str(z)))


def complete_word(A, prefix, sym):
    """a shortest accepted word of A extending prefix·sym (for display)"""
    x = A.start
    for s in prefix:
        x = A.trans[(x, s)]
    w = list(prefix)
    if sym is not None:
        x = A.trans[(x, sym)]
        w.append(sym)
    prev = {x: None}
    dq = deque([x])
    while dq:
        c = dq.popleft()
        if c in A.acc:
            tail = []
            while prev[c] is not None:
                c, s = prev[c]
                tail.append(s)
            return w + list(reversed(tail))
        for (s, n) in sorted(A.out(c), key=lambda z: str(z[0])):
            if n not in prev:
                prev[n] = (c, s)
                dq.append(n)
    return w
