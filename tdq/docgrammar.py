"""The documented grammar: syntax.md (EBNF) overlaid with the `// Rule ::= ...` comments of the grammar files
(the property statement says the comments extend the document). Parsed into a small regex AST over terminals
(quoted strings / UPPERCASE lexical classes) and nonterminals."""
import os
import re

from .facts import REPO
from . import ref


def tokenize(rhs):
    toks = []
    i = 0
    while i < len(rhs):
        c = rhs[i]
        if c.isspace():
            i += 1
        elif c == '"':
            j = rhs.index('"', i + 1)
            toks.append(("term", rhs[i + 1:j]))
            i = j + 1
        elif c in "()|?*+":
            toks.append((c, c))
            i += 1
        else:
            m = re.match(r"[A-Za-z_][A-Za-z0-9_]*", rhs[i:])
            if not m:
                raise ValueError("bad EBNF near %r" % rhs[i:i + 20])
            w = m.group(0)
            toks.append(("lex" if w.isupper() else "nt", w))
            i += len(w)
    return toks


class P:
    def __init__(self, toks):
        self.t, self.i = toks, 0

    def peek(self):
        return self.t[self.i] if self.i < len(self.t) else (None, None)

    def alt(self):
        items = [self.seq()]
        while self.peek()[0] == "|":
            self.i += 1
            items.append(self.seq())
        return items[0] if len(items) == 1 else ("alt", items)

    def seq(self):
        items = []
        while self.peek()[0] not in (None, "|", ")"):
            items.append(self.post())
        return items[0] if len(items) == 1 else ("seq", items)

    def post(self):
        a = self.atom()
        while self.peek()[0] in ("?", "*", "+"):
            op = self.peek()[0]
            self.i += 1
            a = ({"?": "opt", "*": "star", "+": "plus"}[op], a)
        return a

    def atom(self):
        k, v = self.peek()
        self.i += 1
        if k == "(":
            a = self.alt()
            if self.peek()[0] != ")":
                raise ValueError("unbalanced parenthesis")
            self.i += 1
            return ("group", a)
        if k in ("term", "lex", "nt"):
            return (k, v)
        raise ValueError("unexpected %r" % (v,))


def parse_rhs(rhs):
    toks = tokenize(rhs)
    p = P(toks)
    a = p.alt()
    if p.i != len(toks):
        raise ValueError("trailing tokens in %r" % rhs)
    # a group that spans the whole right-hand side is not grouping anything: the document means literal
    # parentheses (this is how `Dag ::= ( DagArg DagArgList? )` is written)
    if a[0] == "group":
        a = ("seq", [("term", "("), a[1], ("term", ")")])
    return strip_groups(a)


def strip_groups(a):
    if a[0] == "group":
        return strip_groups(a[1])
    if a[0] in ("alt", "seq"):
        return (a[0], [strip_groups(x) for x in a[1]])
    if a[0] in ("opt", "star", "plus"):
        return (a[0], strip_groups(a[1]))
    return a


RULE = re.compile(r"^\s*(?://\s*)?([A-Z][A-Za-z]*)(?:\([A-Za-z]+\))?\s*:?:=\s*(.+?)\s*;?\s*$")


def load(repo=REPO):
    """returns (rules: name -> ast, sources: name -> list of (where, text))"""
    rules = {}
    sources = {}
    md = os.path.join(repo, "syntax.md")
    texts = []
    if os.path.exists(md):
        for ln, line in enumerate(open(md), 1):
            if "::=" in line:
                texts.append(("syntax.md:%d" % ln, line.strip()))
    gdir = os.path.join(repo, "crates", "syntax", "src")
    for rel in ("grammar.rs", "grammar/statement.rs", "grammar/value.rs", "grammar/type.rs"):
        p = os.path.join(gdir, rel)
        if not os.path.exists(p):
            continue
        for ln, line in enumerate(open(p), 1):
            s = line.strip()
            if s.startswith("//") and ("::=" in s or ":=" in s):
                texts.append(("%s:%d" % (rel, ln), s))
    for where, text in texts:
        m = RULE.match(text)
        if not m:
            continue
        name, rhs = m.group(1), m.group(2)
        try:
            ast = parse_rhs(rhs)
        except ValueError:
            continue
        sources.setdefault(name, []).append((where, text))
        if name in rules and rules[name] != ast:
            # the comment extends the document: the language is the union of both statements
            rules[name] = ("alt", [rules[name], ast])
        else:
            rules[name] = ast
    return rules, sources


# terminal spelling -> token kinds
def terminal_kinds(spelling):
    if spelling in ref.PUNCT:
        return {ref.PUNCT[spelling]}
    if spelling in ref.KEYWORDS:
        return {ref.KEYWORDS[spelling]}
    if spelling.startswith("!") and spelling[1:] in ref.BANG_OPERATORS:
        return {ref.BANG_OPERATORS[spelling[1:]]}
    return None


LEXICAL = {
    "INT": {"IntVal", "BinaryIntVal"},
    "STRING": {"StrVal"},
    "CODE": {"CodeFragment"},
    "VARNAME": {"VarName"},
    "ID": {"Id"},
    "BANGOP": None,     # filled from the lexer's is_bang_operator set
    "CONDOP": {"XCond"},
}
