"""Lock-order analysis (A8): resources, guard live ranges, acquire-while-holding edges per thread role."""
import re

from .facts import Body, op_local, op_place
from .callgraph import callgraph

UNWRAPPERS = re.compile(r"^std::result::Result::<T, E>::(unwrap|expect|unwrap_or_else|unwrap_unchecked)$|"
                        r"^std::option::Option::<T>::(unwrap|expect)$|"
                        r"^std::sync::PoisonError::<T>::into_inner$")

LOCK_APIS = [
    (re.compile(r"^std::sync::RwLock::<T>::(read|try_read)$"), "RwLock", "R"),
    (re.compile(r"^std::sync::RwLock::<T>::(write|try_write)$"), "RwLock", "W"),
    (re.compile(r"^std::sync::Mutex::<T>::(lock|try_lock)$"), "Mutex", "W"),
    (re.compile(r"^tokio::sync::RwLock::<T>::(read|blocking_read)$"), "tokio::RwLock", "R"),
    (re.compile(r"^tokio::sync::RwLock::<T>::(write|blocking_write)$"), "tokio::RwLock", "W"),
    (re.compile(r"^tokio::sync::Mutex::<T>::(lock|blocking_lock)$"), "tokio::Mutex", "W"),
    (re.compile(r"^parking_lot::.*::(read|write|lock)$"), "parking_lot", "W"),
]
SALSA_WRITE = re.compile(r"^salsa::QueryTableMut::<'me, Q>::(set|set_with_durability|invalidate)"
                         r"|^salsa::Runtime::synthetic_write|^salsa::.*::synthetic_write")
REV = "salsa-revision-lock"

BLOCKING = re.compile(
    r"^std::sync::mpsc::Receiver::<T>::(recv|recv_timeout)$|^std::thread::JoinHandle::<T>::join$|"
    r"^tokio::runtime::(Handle|Runtime)::block_on$|^futures::executor::block_on$|"
    r"^std::sync::Condvar::wait|^std::thread::sleep$|^std::sync::Barrier::wait$|"
    r"^tokio::sync::mpsc::.*::blocking_(recv|send)$|^std::thread::park|^std::sync::mpsc::SyncSender::<T>::send$")


def conflicts(m1, m2):
    return "W" in (m1, m2) or "X" in (m1, m2)


def type_holds(prog, ty, needle, depth=0, seen=None):
    """Does a value of type `ty` (transitively through workspace ADT fields) contain `needle`?"""
    if needle in ty:
        return True
    if depth > 6:
        return False
    seen = seen or set()
    for m in re.finditer(r"[A-Za-z_][\w]*(?:::[A-Za-z_][\w]*)+", ty):
        name = m.group(0)
        if name in seen:
            continue
        seen.add(name)
        adt = prog.adts.get(name)
        if adt and adt.get("local"):
            for v in adt["variants"]:
                for f in v["fields"]:
                    if type_holds(prog, f["t"], needle, depth + 1, seen):
                        return True
    return False


class Acq:
    __slots__ = ("res", "mode", "body", "bb", "region", "guard_locals")

    def __init__(self, res, mode, body, bb, region, guard_locals):
        self.res, self.mode, self.body, self.bb = res, mode, body, bb
        self.region = region
        self.guard_locals = guard_locals


def guard_region(body, start_bb, first_local):
    """Blocks in which a guard first stored in `first_local` (dest of the call ending start_bb) is alive."""
    owners = {first_local}
    # alias closure over the whole body (flow-insensitive propagation of ownership moves)
    changed = True
    while changed:
        changed = False
        for i, bb in enumerate(body.blocks):
            if bb["cleanup"]:
                continue
            for s in bb["s"]:
                if "a" not in s or s["a"]["p"]:
                    continue
                rv = s["rv"]
                srcs = []
                if "use" in rv:
                    srcs = [rv["use"]]
                elif "agg" in rv:
                    srcs = rv["ops"]
                for o in srcs:
                    if "move" in o and not o["move"]["p"] and o["move"]["l"] in owners:
                        if s["a"]["l"] not in owners:
                            owners.add(s["a"]["l"])
                            changed = True
            t = bb["term"]
            if t["k"] == "call" and UNWRAPPERS.match(t["f"].get("fn") or ""):
                for o in t["args"]:
                    if "move" in o and not o["move"]["p"] and o["move"]["l"] in owners and not t["dest"]["p"]:
                        if t["dest"]["l"] not in owners:
                            owners.add(t["dest"]["l"])
                            changed = True
    ends = set()
    for i, bb in enumerate(body.blocks):
        if bb["cleanup"]:
            continue
        t = bb["term"]
        if t["k"] == "drop" and not t["place"]["p"] and t["place"]["l"] in owners:
            # dropping an intermediate whose content was moved on is a no-op at run time, but at
            # mir-opt-level=0 with drop elaboration only real drops remain for moved-from locals
            ends.add(i)
        if t["k"] == "call" and not UNWRAPPERS.match(t["f"].get("fn") or ""):
            for o in t["args"]:
                if "move" in o and not o["move"]["p"] and o["move"]["l"] in owners:
                    ends.add(i)   # ownership handed to the callee
    # the final owner is the one whose drop ends the region: keep only drops of locals that are not
    # moved elsewhere afterwards (approximation: the last owner in the alias chain)
    region = set()
    st = list(body.succ(start_bb))
    while st:
        b = st.pop()
        if b in region:
            continue
        region.add(b)
        if b in ends:
            continue
        st.extend(body.succ(b))
    return region, owners, ends


def moved_from_drops(body, owners):
    """locals in owners that are moved into another owner: their Drop is not the release point"""
    moved = set()
    for bb in body.blocks:
        for s in bb["s"]:
            if "a" in s and not s["a"]["p"] and s["a"]["l"] in owners:
                rv = s["rv"]
                srcs = [rv["use"]] if "use" in rv else rv.get("ops", []) if "agg" in rv else []
                for o in srcs:
                    if "move" in o and not o["move"]["p"] and o["move"]["l"] in owners:
                        moved.add(o["move"]["l"])
        t = bb["term"]
        if t["k"] == "call" and UNWRAPPERS.match(t["f"].get("fn") or "") and not t["dest"]["p"] \
                and t["dest"]["l"] in owners:
            for o in t["args"]:
                if "move" in o and not o["move"]["p"] and o["move"]["l"] in owners:
                    moved.add(o["move"]["l"])
    return moved


class LockModel:
    def __init__(self, prog):
        self.prog = prog
        self.cg = callgraph(prog)
        self.acqs = []            # explicit guard acquisitions
        self.direct = {}          # body -> set((res, mode, bb)) acquired directly
        self._summary = {}
        self._scan()

    def _scan(self):
        prog = self.prog
        for p, b in prog.bodies.items():
            for bb, t in b.calls():
                c = Body.callee(t) or ""
                hit = None
                for rx, fam, mode in LOCK_APIS:
                    if rx.match(c):
                        inner = (t["f"].get("args") or [{}])[0].get("ty", "?")
                        hit = ("%s<%s>" % (fam, inner), mode)
                        break
                if hit:
                    dest = t["dest"]["l"]
                    region, owners, ends = guard_region(b, bb, dest)
                    self.acqs.append(Acq(hit[0], hit[1], p, bb, region, owners))
                    self.direct.setdefault(p, set()).add((hit[0], hit[1], bb))
                elif SALSA_WRITE.match(c):
                    self.direct.setdefault(p, set()).add((REV, "X", bb))
                else:
                    # a salsa snapshot obtained here is a shared hold of the revision lock
                    dty = b.local_ty(t["dest"]["l"]) if not t["dest"]["p"] else ""
                    if dty and type_holds(prog, dty, "salsa::Snapshot<") and \
                            not any(type_holds(prog, b.local_ty(op_local(a)), "salsa::Snapshot<")
                                    for a in t["args"] if op_local(a) is not None and "move" in a):
                        region, owners, ends = guard_region(b, bb, t["dest"]["l"])
                        self.acqs.append(Acq(REV, "S", p, bb, region, owners))

    def summary(self, p, _stack=None):
        """set of (res, mode) that executing body p may acquire (transitively, same thread)."""
        if p in self._summary:
            return self._summary[p]
        _stack = _stack or set()
        if p in _stack:
            return set()
        _stack.add(p)
        out = {(r, m) for (r, m, _) in self.direct.get(p, ())}
        for e in self.cg.callees(p):
            out |= self.summary(e.target, _stack)
        _stack.discard(p)
        self._summary[p] = out
        return out

    def witness(self, p, res, mode):
        """call chain from p to a body acquiring (res, mode) directly"""
        return self.cg.path([p], lambda x: any(r == res and m == mode for (r, m, _) in self.direct.get(x, ())))
