"""A4: abstract interpretation of the recursive-descent parser, directly on MIR.

Domain: the set LA of token kinds the parser's current token may have, flags (progress, err,
is_after_error), a stack of open syntax nodes with child counts, and abstract values for locals
(current token, constant kinds, booleans, checkpoints, closures, constant kind lists ...).

Only leaf effects are built in (token-stream calls, rowan GreenNodeBuilder calls, Vec<SyntaxError>
push, TokenKind equality, slice::contains, kind conversions); every ParserBase helper (at, eat_if,
expect, error_and_recover, assert, eat, skip, save, lex ...) and every grammar function is
interpreted from its own MIR, so their meaning is read from the code, not assumed from names.

Functions are summarised per context (function, LA, is_after_error, abstract arguments) by a global
fixpoint. Results: per-context outcomes, feasible panic sites, loop cycles without progress,
left recursion, node balance problems, child-kind multisets and first tokens per node kind."""
import sys
from collections import defaultdict

from .facts import op_local, op_place, op_const, Body
from . import paths, cfg as cfgmod

TOKENKIND = "syntax::token_kind::TokenKind"
SYNTAXKIND = "syntax::syntax_kind::SyntaxKind"
PARSERBASE = "syntax::parser::ParserBase<"

UNK = ("unk",)
CUR = ("cur",)
SELF = ("self",)

CAP = 2   # child multiplicities are counted 0,1,2(=many)
WIDEN_ABOVE = 12


def cadd(counts, kind, n=1):
    """counts: tuple of (kind, lo, hi) intervals of child multiplicity, capped at CAP"""
    d = {k: (lo, hi) for k, lo, hi in counts}
    lo, hi = d.get(kind, (0, 0))
    d[kind] = (min(CAP, lo + n), min(CAP, hi + n))
    return tuple(sorted((k, v[0], v[1]) for k, v in d.items()))


def cmerge(a, b):
    """sequential composition: children a followed by children b"""
    d = {k: (lo, hi) for k, lo, hi in a}
    for k, lo, hi in b:
        l0, h0 = d.get(k, (0, 0))
        d[k] = (min(CAP, l0 + lo), min(CAP, h0 + hi))
    return tuple(sorted((k, v[0], v[1]) for k, v in d.items()))


def cjoin(a, b):
    """least upper bound of two child-count maps (interval hull per kind)"""
    if a == b:
        return a
    da = {k: (lo, hi) for k, lo, hi in a}
    db = {k: (lo, hi) for k, lo, hi in b}
    out = {}
    for k in set(da) | set(db):
        l1, h1 = da.get(k, (0, 0))
        l2, h2 = db.get(k, (0, 0))
        out[k] = (min(l1, l2), max(h1, h2))
    return tuple(sorted((k, v[0], v[1]) for k, v in out.items()))


def cdiff(a, b):
    """children added since a checkpoint whose counts were b"""
    db = {k: (lo, hi) for k, lo, hi in b}
    out = {}
    for k, lo, hi in a:
        l0, h0 = db.get(k, (0, 0))
        nlo = max(0, lo - h0) if hi < CAP else max(0, lo - h0)
        nhi = hi if hi >= CAP and h0 > 0 else max(0, hi - l0)
        if hi >= CAP and h0 == 0:
            nhi = hi
        if nhi > 0:
            out[k] = (min(nlo, nhi), nhi)
    return tuple(sorted((k, v[0], v[1]) for k, v in out.items()))


NOFIRST = frozenset(["<none>"])


def coarse_first(f):
    real = f - NOFIRST
    if len(real) > 60:
        real = frozenset(["<any>"])
    return real | (f & NOFIRST)


def first_fill(f, new):
    """a node that may still be empty (has '<none>') gets `new` as possible first tokens"""
    if "<none>" in f:
        return (f - NOFIRST) | new
    return f


class Node:
    """open node entry: (kind, site, counts, first) as a tuple for hashing"""


def field_role(pe):
    """role of a ParserBase field from its type, so that renaming the field changes nothing: the TokenKind field is the
    current token, the bool field is the after-error flag"""
    t = pe.get("t", "")
    if t.endswith("token_kind::TokenKind"):
        return "current"
    if t == "bool":
        return "is_after_error"
    return pe.get("n")


def mknode(kind, site, counts=(), first=NOFIRST, foreign=None):
    return (kind, site, counts, first, foreign)


class State:
    __slots__ = ("la", "aerr", "prog", "err", "stack", "vals", "since", "saved", "word")

    def __init__(self, la, aerr, prog, err, stack, vals, since, saved=False, word=()):
        self.word = word        # base-level symbols emitted so far (word mode only)
        self.la = la
        self.aerr = aerr
        self.saved = saved      # the current token has already been written to the tree
        self.prog = prog
        self.err = err
        self.stack = stack      # tuple of node tuples; stack[0] is the base pseudo node
        self.vals = vals        # dict local -> abstract value
        self.since = since      # tuple of (loop head, progressed since last visit)

    def key(self):
        return (self.la, self.aerr, self.saved, self.word, self.prog, self.err, self.stack,
                tuple(sorted(self.vals.items())), self.since)

    def key_nola(self):
        shape = tuple((n[0], n[1], n[4]) for n in self.stack)
        return (self.aerr, self.saved, self.word, self.prog, self.err, shape,
                tuple(sorted(self.vals.items())), self.since)

    def soft(self):
        """the joinable part: look-ahead set, child counts and first tokens of the open nodes"""
        return (self.la, tuple((n[2], n[3]) for n in self.stack))

    def join_soft(self, soft):
        la, nodes = soft
        changed = False
        if not (self.la >= la):
            self.la = self.la | la
            changed = True
        new = []
        for n, (c, f) in zip(self.stack, nodes):
            c2 = cjoin(n[2], c)
            f2 = n[3] | f
            if c2 != n[2] or f2 != n[3]:
                changed = True
            new.append((n[0], n[1], c2, f2, n[4]))
        self.stack = tuple(new)
        return changed

    def copy(self):
        return State(self.la, self.aerr, self.prog, self.err, self.stack, dict(self.vals), self.since, self.saved, self.word)


class Outcome(tuple):
    """(la, aerr, prog, err, ret, opened, first, actions)"""


class ParserAI:
    def __init__(self, prog, ck=None):
        self.prog = prog
        self.ck = ck
        tk = prog.adts.get(TOKENKIND)
        sk = prog.adts.get(SYNTAXKIND)
        if not tk or not sk:
            raise KeyError("TokenKind/SyntaxKind ADT facts missing")
        self.tk_by_discr = {v["discr"]: v["name"] for v in tk["variants"]}
        self.tk_discr = {v["name"]: v["discr"] for v in tk["variants"]}
        self.sk_by_discr = {v["discr"]: v["name"] for v in sk["variants"]}
        self.adt_discr = {}
        # kinds the token stream handed to the parser can deliver
        self.trivia = self._true_set("syntax::token_kind::TokenKind::is_trivia")
        self.consumed_by_pp = self._pp_consumed()
        self.ALL = frozenset(self.tk_discr) - self.consumed_by_pp
        # pseudo child kinds "@<enum ast type>" count the members of that enum together, so that
        # "some Type child is always present" survives the per-kind interval join
        from . import ast_facts
        self.groups = defaultdict(list)
        for ty, info in ast_facts.ast_types(prog).items():
            if info["is_enum"]:
                for k in info["kinds"]:
                    self.groups[k].append("@" + ty.rsplit("::", 1)[-1])
        self.memo = {}          # ctx -> frozenset(outcomes)
        self.deps = defaultdict(set)
        self.panics = {}        # (fn, bb) -> info
        self.noprogress = {}    # (fn, head) -> info
        self.leftrec = {}
        self.balance = {}       # problems
        self.unsupported = {}
        self.children = defaultdict(set)   # node kind -> set of (counts, err)
        self.firsts = defaultdict(set)     # node kind -> set of first-token kinds / None
        self.node_sites = defaultdict(set) # node kind -> set of (fn, bb)
        self.loop_heads = {}
        self.active = []
        self.contexts_evaluated = 0
        self.states_explored = 0
        self.changed = False
        self.ctx_by_fn = defaultdict(set)
        self.wordmode = False   # phase 2: record the base-level symbol word of each outcome
        self.recording = None   # phase 2: ctx -> list of (src vertex, label, dst vertex)
        self.rec_entry = {}
        self.discipline = {}    # violations of the save/lex alternation and of `current` provenance
        self.assert_calls = defaultdict(set)   # (fn, bb) -> set of (la, kind) at calls of ParserBase::assert
        self.call_la = defaultdict(set)  # (caller fn, bb, callee) -> la sets seen
        self.token_log = None            # when a list: (fn, kinds) of every token consumption evaluated

    # ------------------------------------------------------------------ helpers
    def _true_set(self, fn):
        b = self.prog.body(fn)
        if b is None:
            raise KeyError(fn)
        vt = paths.variant_table(b, self.prog, TOKENKIND)
        return frozenset(k for k, v in vt.items() if v == {("const", "true")})

    def _pp_consumed(self):
        """token kinds the preprocessor never hands on: kinds for which no path of next_token returns the eaten
        token itself (a guarded arm that falls through to `kind => kind` hands the kind on)."""
        pb = self.prog.body("syntax::preprocessor::PreProcessor::<T>::next_token")
        if pb is None:
            return frozenset()
        eat_dest = None
        for i, t in pb.calls():
            if (Body.callee(t) or "").endswith("TokenStream>::eat") or (t["f"].get("decl") or "").endswith("TokenStream::eat"):
                if not t["dest"]["p"]:
                    eat_dest = t["dest"]["l"]
        named = set()
        passed = set()
        for p in paths.enum_paths(pb, self.prog):
            if p.end != "return":
                continue
            chosen = None
            excluded = set()
            for e in p.events:
                if e[0] == "branch" and e[2].kind == "discr":
                    if isinstance(e[3], tuple):
                        excluded |= set(e[3][1])
                    else:
                        chosen = e[3]
            through = False
            alias = {}
            for e in p.events:
                if e[0] == "assign" and not e[2]["a"]["p"]:
                    u = e[2]["rv"].get("use") if isinstance(e[2]["rv"], dict) else None
                    src = None
                    if isinstance(u, dict):
                        for k in ("copy", "move"):
                            if k in u and not u[k]["p"]:
                                src = u[k]["l"]
                    if src is not None:
                        alias[e[2]["a"]["l"]] = alias.get(src, src)
                    else:
                        alias.pop(e[2]["a"]["l"], None)
            if p.ret and p.ret[0] == "rv" and alias.get(0) == eat_dest:
                through = True
            if chosen is not None:
                named.add(chosen)
                if through:
                    passed.add(chosen)
        return frozenset(self.tk_by_discr[d] for d in named - passed if d in self.tk_by_discr)

    def cadd_k(self, counts, kn):
        counts = cadd(counts, kn)
        for gname in self.groups.get(kn, ()):
            counts = cadd(counts, gname)
        return counts

    def heads(self, body):
        h = self.loop_heads.get(body.path)
        if h is None:
            h = frozenset(x for x, _ in cfgmod.loops(body))
            self.loop_heads[body.path] = h
        return h

    def variant_discr(self, adt, name):
        key = (adt, name)
        if key not in self.adt_discr:
            a = self.prog.adts.get(adt)
            self.adt_discr[key] = None
            if a:
                for v in a["variants"]:
                    if v["name"] == name:
                        self.adt_discr[key] = v["discr"]
        return self.adt_discr[key]

    # ------------------------------------------------------------------ value evaluation
    def const_val(self, c):
        ty = c["ty"]
        if ty == "bool":
            return ("bool", bool(c.get("int")))
        if "int" in c and ty in ("u8", "u16", "u32", "u64", "usize", "i32", "i64", "isize", "u128", "char"):
            return ("int", c["int"])
        v = c.get("val", "")
        if ty == TOKENKIND:
            return ("kind", v.rsplit("::", 1)[-1])
        if ty == SYNTAXKIND:
            return ("sk", v.rsplit("::", 1)[-1])
        if ty.startswith("[" + TOKENKIND) or ty.startswith("&[" + TOKENKIND):
            lst = paths.parse_const_list(v)
            if lst is not None:
                val = ("list", tuple(lst))
                return ("refval", val) if ty.startswith("&") else val
        if "::" in v and "{" not in v and "(" not in v and v.rsplit("::", 1)[0] == ty:
            return ("variant", ty, v.rsplit("::", 1)[-1])
        return UNK

    def read_place(self, st, body, place):
        l = place["l"]
        v = st.vals.get(l, UNK)
        for pe in place["p"]:
            if pe == "*":
                if v == SELF:
                    v = ("selfobj",)
                elif v[0] == "ref":
                    v = st.vals.get(v[1], UNK)
                elif v[0] == "refval":
                    v = v[1]
                elif v[0] == "fieldref":
                    v = ("fieldobj", v[1])
                else:
                    v = UNK
            elif isinstance(pe, dict) and "f" in pe:
                if v == ("selfobj",):
                    n = field_role(pe)
                    if n == "current":
                        v = CUR
                    elif n == "is_after_error":
                        v = ("bool", st.aerr) if st.aerr is not None else UNK
                    else:
                        v = ("fieldobj", n)
                elif v[0] == "tuple":
                    i = pe["f"]
                    v = v[1][i] if i < len(v[1]) else UNK
                else:
                    v = UNK
            else:
                v = UNK
        return v

    def opval(self, st, body, op):
        if "const" in op:
            return self.const_val(op["const"])
        if "fn" in op:
            return ("fn", op["fn"])
        p = op_place(op)
        if p is None:
            return UNK
        return self.read_place(st, body, p)

    def ref_place(self, st, body, place):
        l = place["l"]
        proj = place["p"]
        if not proj:
            return ("ref", l)
        v = st.vals.get(l, UNK)
        if proj[0] == "*":
            rest = proj[1:]
            if v == SELF:
                if not rest:
                    return SELF
                if isinstance(rest[0], dict) and "f" in rest[0] and len(rest) == 1:
                    n = field_role(rest[0])
                    if n == "current":
                        return ("refval", CUR)
                    return ("fieldref", n)
                return UNK
            if v[0] in ("ref", "refval", "fieldref") and not rest:
                return v
            if v[0] == "ref" and rest:
                inner = self.read_place(st, body, {"l": v[1], "p": rest})
                return ("refval", inner)
            if v[0] == "refval" and rest:
                return UNK
        val = self.read_place(st, body, place)
        if val != UNK:
            return ("refval", val)
        return UNK

    def rvalue(self, st, body, rv):
        if "use" in rv:
            return self.opval(st, body, rv["use"])
        if "ref" in rv:
            return self.ref_place(st, body, rv["ref"])
        if "cast" in rv:
            v = self.opval(st, body, rv["cast"])
            return v
        if "discr" in rv:
            v = self.read_place(st, body, rv["discr"])
            if v == CUR:
                return ("discr-cur",)
            if v[0] == "kind":
                return ("int", self.tk_discr[v[1]])
            if v[0] == "variant":
                d = self.variant_discr(v[1], v[2])
                return ("int", d) if d is not None else UNK
            return UNK
        if "agg" in rv:
            k = rv["agg"]
            if isinstance(k, dict) and "adt" in k:
                if not rv["ops"]:
                    if k["adt"] == TOKENKIND:
                        return ("kind", k["variant"])
                    if k["adt"] == SYNTAXKIND:
                        return ("sk", k["variant"])
                    return ("variant", k["adt"], k["variant"])
                return UNK
            if isinstance(k, dict) and "closure" in k:
                return ("closure", k["closure"])
            if k == "tuple":
                return ("tuple", tuple(self.opval(st, body, o) for o in rv["ops"]))
            return UNK
        if "unop" in rv:
            v = self.opval(st, body, rv["a"])
            if rv["unop"] == "Not" and v[0] == "bool":
                return ("bool", not v[1])
            return UNK
        if "binop" in rv:
            a = self.opval(st, body, rv["a"])
            b = self.opval(st, body, rv["b"])
            if a[0] == "int" and b[0] == "int":
                if rv["binop"] == "Eq":
                    return ("bool", a[1] == b[1])
                if rv["binop"] == "Ne":
                    return ("bool", a[1] != b[1])
                if rv["binop"] == "Lt":
                    return ("bool", a[1] < b[1])
            return UNK
        return UNK

    # ------------------------------------------------------------------ context evaluation
    def summary(self, fn, la, flags, argvals, caller=None):
        ctx = (fn, la, flags, argvals)
        if caller is not None:
            self.deps[ctx].add(caller)
        # left recursion: the same context is already being evaluated and nothing was consumed since
        for i, (actx, _) in enumerate(self.active):
            if actx == ctx:
                progressed = any(p for _, p in self.active[i:])
                if not progressed:
                    self.leftrec[(fn, la)] = [a[0][0] for a in self.active[i:]] + [fn]
                break
        if ctx in self.memo:
            if not any(actx == ctx for actx, _ in self.active) and ctx not in self._done_round:
                self._eval(ctx)
            return self.memo[ctx]
        self.memo[ctx] = frozenset()
        self._eval(ctx)
        return self.memo[ctx]

    def run(self, root_fn, la=None, argvals=None):
        body = self.prog.body(root_fn)
        if body is None:
            raise KeyError(root_fn)
        la = self.ALL if la is None else la
        if argvals is None:
            argvals = (SELF,) + tuple(UNK for _ in range(body.argc - 1))
        rounds = 0
        while True:
            rounds += 1
            self.changed = False
            self._done_round = set()
            self.summary(root_fn, la, (False, False), argvals)
            if not self.changed or rounds > 60:
                break
        self.rounds = rounds
        return self.memo[(root_fn, la, (False, False), argvals)]

    def _eval(self, ctx):
        fn, la, (aerr, saved0), argvals = ctx
        self._done_round.add(ctx)
        body = self.prog.body(fn)
        self.ctx_by_fn[fn].add(ctx)
        self.contexts_evaluated += 1
        vals = {}
        for i, v in enumerate(argvals):
            if v != UNK:
                vals[i + 1] = v
        st0 = State(la, aerr, False, False, (mknode("<base>", None),), vals, (), saved0)
        outcomes = set()
        self.active.append([ctx, False])
        try:
            seen = {}
            work = [(0, st0)]
            if self.recording is not None:
                self.rec_entry[ctx] = (0, st0.key_nola())
            while work:
                b, st = work.pop()
                # join: states that differ only in the look-ahead set are merged (union)
                k = (b, st.key_nola())
                acc = seen.get(k)
                if acc is not None:
                    before = st.soft()
                    st.join_soft(acc)
                    if st.soft() == acc:
                        continue
                seen[k] = st.soft()
                self.states_explored += 1
                if len(seen) > 400000:
                    self.unsupported[(fn, "state-explosion")] = len(seen)
                    break
                succs = self.step(ctx, body, b, st, outcomes)
                if self.recording is not None:
                    rec = self.recording.setdefault(ctx, [])
                    for item in succs:
                        nb, nst = item[0], item[1]
                        lab = item[2] if len(item) > 2 else None
                        if lab is None and nb != "RET":
                            # which current tokens take this edge (a match on peek(), `==`, contains() refine it)
                            lab = ("guard", nst.la, nst.la != st.la)
                        if nb == "RET":
                            rec.append((k, lab, ("RET", nst)))
                        else:
                            rec.append((k, lab, (nb, nst.key_nola())))
                for item in succs:
                    if item[0] != "RET":
                        work.append((item[0], item[1]))
        finally:
            self.active.pop()
        new = frozenset(outcomes)
        if new != self.memo.get(ctx):
            old = self.memo.get(ctx, frozenset())
            self.memo[ctx] = new | old
            if self.memo[ctx] != old:
                self.changed = True

    # ------------------------------------------------------------------ one block
    def step(self, ctx, body, b, st, outcomes):
        fn = ctx[0]
        bb = body.blocks[b]
        if bb["cleanup"]:
            return []
        st = st.copy()
        # loop progress bookkeeping
        if b in self.heads(body):
            since = dict(st.since)
            if b in since and not since[b]:
                self.noprogress.setdefault((fn, b), {"la": sorted(st.la), "where": body.where(b)})
                return []   # the real parser would spin here; do not explore further
            since[b] = False
            st.since = tuple(sorted(since.items()))
        for s in bb["s"]:
            if "a" not in s:
                continue
            place = s["a"]
            val = self.rvalue(st, body, s["rv"])
            if not place["p"]:
                if val == UNK:
                    st.vals.pop(place["l"], None)
                else:
                    st.vals[place["l"]] = val
                # moves invalidate nothing we track
            else:
                self.write_place(st, body, place, val)
        t = bb["term"]
        k = t["k"]
        if k == "goto":
            return [(t["t"], st)]
        if k in ("drop", "assert"):
            return [(t["t"], st)]
        if k == "return":
            ret = st.vals.get(0, UNK)
            if ret[0] in ("ref",):
                ret = UNK
            base = st.stack[0]
            acts = base[4] or ()
            if len(st.stack) != 1:
                # nodes left open are handed to the caller (helpers such as ParserBase::start_node)
                for n in st.stack[1:]:
                    acts = acts + (("push", n[0], n[1], n[2], n[3], n[4]),)
                # the first exported node was counted as a child of our base; the caller counts it
                bc = {k: (lo, hi) for k, lo, hi in base[2]}
                k0 = st.stack[1][0]
                for kk in [k0] + list(self.groups.get(k0, ())):
                    if kk in bc:
                        lo, hi = bc[kk]
                        lo, hi = max(0, lo - 1), (hi if hi >= CAP else max(0, hi - 1))
                        if lo == 0 and hi == 0:
                            del bc[kk]
                        else:
                            bc[kk] = (lo, hi)
                base = (base[0], base[1], tuple(sorted((k, v[0], v[1]) for k, v in bc.items())), base[3], base[4])
            if ret[0] == "cp" and (ret[3] != 1 or ret[4] != fn):
                ret = UNK
            la_out = st.la
            if len(la_out) > WIDEN_ABOVE:
                # widening: forget negative information gathered by failed tests (keeps the number of
                # calling contexts finite and small); positive knowledge (small sets) stays exact
                la_out = self.ALL if st.prog else la_out
            first = coarse_first(base[3])
            if self.wordmode:
                out = Outcome((la_out, (st.aerr, st.saved), st.prog, st.err, ret, base[2], first, acts, st.word))
            else:
                out = Outcome((la_out, (st.aerr, st.saved), st.prog, st.err, ret, base[2], first, acts))
            outcomes.add(out)
            if self.recording is not None:
                return [("RET", out, None)]
            return []
        if k == "unreachable":
            return []
        if k == "switch":
            return self.do_switch(body, b, t, st)
        if k == "call":
            return self.do_call(ctx, body, b, t, st)
        return []

    def write_place(self, st, body, place, val):
        l = place["l"]
        base = st.vals.get(l, UNK)
        proj = place["p"]
        if proj and proj[0] == "*" and base == SELF and len(proj) == 2 and isinstance(proj[1], dict):
            n = field_role(proj[1])
            if n == "current":
                self.set_current(st, val, body.path)
            elif n == "is_after_error":
                st.aerr = val[1] if val[0] == "bool" else None
            return
        if proj and proj[0] == "*" and base[0] == "ref" and len(proj) == 1:
            if val == UNK:
                st.vals.pop(base[1], None)
            else:
                st.vals[base[1]] = val
            return
        # partial write into a tracked aggregate: forget it
        if l in st.vals and st.vals[l][0] in ("tuple",):
            st.vals.pop(l, None)

    def set_current(self, st, val, where=None):
        # a new token was lexed
        if not st.saved and st.la != frozenset(["Eof"]):
            self.discipline.setdefault(("lex-without-save", where), sorted(st.la)[:6])
        if val != ("fresh",):
            self.discipline.setdefault(("current-not-lexed", where), repr(val))
        st.saved = False
        if val == ("fresh",):
            if st.la == frozenset(["Eof"]):
                st.la = frozenset(["Eof"])
            else:
                st.la = self.ALL
        elif val[0] == "kind":
            st.la = frozenset([val[1]])
        else:
            st.la = self.ALL
        # values derived from the previous token are stale now
        for k in [k for k, v in st.vals.items() if self.mentions_cur(v)]:
            st.vals.pop(k)

    def mentions_cur(self, v):
        if v == CUR or v == ("discr-cur",):
            return True
        if v[0] == "refval":
            return self.mentions_cur(v[1])
        if v[0] == "tuple":
            return any(self.mentions_cur(x) for x in v[1])
        return False

    # ------------------------------------------------------------------ switch
    def do_switch(self, body, b, t, st):
        v = self.opval(st, body, t["d"])
        if "move" in t["d"] and not t["d"]["move"]["p"]:
            st.vals.pop(t["d"]["move"]["l"], None)
        arms = t["arms"]
        if v[0] == "bool":
            n = 1 if v[1] else 0
            for val, tgt in arms:
                if val == n:
                    return [(tgt, st)]
            return [(t["else"], st)]
        if v[0] == "int":
            for val, tgt in arms:
                if val == v[1]:
                    return [(tgt, st)]
            return [(t["else"], st)]
        if v == ("discr-cur",):
            out = []
            named = set()
            by_tgt = {}
            for val, tgt in arms:
                kn = self.tk_by_discr.get(val)
                named.add(kn)
                if kn in st.la:
                    by_tgt.setdefault(tgt, set()).add(kn)
            for tgt, kinds in by_tgt.items():
                s2 = st.copy()
                s2.la = frozenset(kinds)
                out.append((tgt, s2))
            rest = st.la - named
            if rest:
                s2 = st.copy()
                s2.la = rest
                out.append((t["else"], s2))
            return out
        out = [(tgt, st.copy()) for _, tgt in arms]
        out.append((t["else"], st.copy()))
        return out

    # ------------------------------------------------------------------ calls
    def do_call(self, ctx, body, b, t, st):
        fn = ctx[0]
        f = t["f"]
        callee = f.get("fn")
        args = [self.opval(st, body, a) for a in t["args"]]
        for a in t["args"]:
            if "move" in a and not a["move"]["p"]:
                st.vals.pop(a["move"]["l"], None)
        dest = t["dest"]
        tgt = t["t"]

        def cont(s, val=UNK):
            if tgt is None:
                return []
            if not dest["p"]:
                if val == UNK:
                    s.vals.pop(dest["l"], None)
                else:
                    s.vals[dest["l"]] = val
            return [(tgt, s)]

        if callee is None:
            # call through a function pointer: interpreted when the pointer is a known function item
            target = UNK
            if "move" in f or "copy" in f:
                target = self.opval(st, body, f)
                n = 0
                while target[0] in ("refval", "ref") and n < 4:
                    target = target[1] if target[0] == "refval" else st.vals.get(target[1], UNK)
                    n += 1
            if target[0] == "fn" and target[1] in self.prog.bodies:
                return self.call_local(ctx, body, b, target[1], tuple(args), st, cont)
            if any(a == SELF or (isinstance(a, tuple) and a and a[0] == "refval" and a[1] == SELF) for a in args):
                self.unsupported[(fn, "indirect-call-with-parser")] = body.where(b)
            return cont(st)

        # ---- diverging calls (panics)
        if tgt is None:
            self.panics.setdefault((fn, b), {"callee": callee, "la": set(), "where": body.where(b),
                                             "mac": t.get("mac")})["la"].update(st.la)
            return []

        # ---- leaf built-ins -------------------------------------------------
        if callee.endswith("PartialEq>::eq") and TOKENKIND in callee or \
                callee == "<syntax::token_kind::TokenKind as std::cmp::PartialEq>::eq":
            return self.bi_eq(st, args, cont)
        if callee == "core::slice::<impl [T]>::contains":
            return self.bi_contains(st, args, cont)
        if callee.startswith("syntax::token_stream::TokenStream::") or \
                (f.get("decl") or "").startswith("syntax::token_stream::TokenStream::"):
            name = (f.get("decl") or callee).rsplit("::", 1)[-1]
            if name == "eat":
                return cont(st, ("fresh",))
            return cont(st)
        if callee.startswith("rowan::GreenNodeBuilder::"):
            name = callee.rsplit("::", 1)[-1]
            kv = None
            for a in args[1:]:
                a = self.deref(st, a)
                if a[0] == "sk":
                    kv = a[1]
            cpfn = None
            if name == "start_node_at" and len(args) > 1:
                cpv = self.deref(st, args[1])
                cpfn = cpv[4] if cpv[0] == "cp" else None
            if name == "checkpoint":
                cpfn = fn
            res = self.bi_builder(ctx, body, b, name, st, args, cont)
            return [(x[0], x[1], ("bi", name, kv, x[1].la if name == "token" else None, cpfn)) for x in res]
        if callee == "std::vec::Vec::<T, A>::push":
            ga = f.get("args") or []
            if ga and ga[0].get("ty") == "syntax::error::SyntaxError":
                st.err = True
            return cont(st)
        if callee in ("<T as std::convert::Into<U>>::into", "<T as std::convert::From<T>>::from") or \
                callee.endswith("for rowan::SyntaxKind>::from"):
            v = args[0] if args else UNK
            if v[0] in ("sk", "kind"):
                return cont(st, v)
            if v == CUR:
                return cont(st, CUR)
            return cont(st)
        if callee in paths.STR_EQ:
            return cont(st)
        # Fn-trait call on a known closure / fn item
        if callee in ("std::ops::FnMut::call_mut", "std::ops::FnOnce::call_once", "std::ops::Fn::call"):
            target = args[0] if args else UNK
            while target[0] == "refval":
                target = target[1]
            if target[0] == "ref":
                target = st.vals.get(target[1], UNK)
            tup = args[1] if len(args) > 1 else UNK
            if target[0] in ("closure", "fn") and tup[0] == "tuple" and target[1] in self.prog.bodies:
                if target[0] == "closure":
                    cargs = (("refval", target),) + tuple(tup[1])
                else:
                    cargs = tuple(tup[1])
                return self.call_local(ctx, body, b, target[1], cargs, st, cont)
            self.unsupported[(fn, "fn-trait-call")] = body.where(b)
            return cont(st)

        # ---- interpreted workspace functions -----------------------------------
        cb = self.prog.body(callee)
        if cb is not None and f.get("how") not in ("virtual", "unresolved") and self.relevant(st, cb, args):
            return self.call_local(ctx, body, b, callee, tuple(args), st, cont)
        return cont(st)

    def relevant(self, st, cb, args):
        """interpret a workspace callee only if it can touch the parser: it receives the parser, a
        token kind derived from the current token, or a closure."""
        if cb.crate != "syntax.rlib":
            return False
        for a in args:
            x = self.deref(st, a)
            if x == SELF or x == CUR or x[0] in ("closure", "fieldref", "kind", "variant", "cp"):
                return True
        return False

    def call_local(self, ctx, body, b, callee, args, st, cont):
        fn = ctx[0]
        cb = self.prog.body(callee)
        # normalise arguments: references into the caller's frame become value snapshots
        norm = []
        for a in args[:cb.argc]:
            if a[0] == "ref":
                inner = st.vals.get(a[1], UNK)
                a = ("refval", inner) if inner != UNK else UNK
            if a[0] == "tuple":
                a = UNK
            norm.append(a)
        while len(norm) < cb.argc:
            norm.append(UNK)
        argvals = tuple(norm)
        if callee == "syntax::parser::ParserBase::<T>::assert":
            k = argvals[1] if len(argvals) > 1 else UNK
            self.assert_calls[(fn, b)].add((st.la, k[1] if k[0] == "kind" else None))
        self.call_la[(fn, b, callee)].add(st.la)
        # mark progress of the frames on the stack (for left-recursion detection)
        self.active[-1][1] = st.prog
        outs = self.summary(callee, st.la, (st.aerr, st.saved), argvals, caller=ctx)
        res = []
        for oc in outs:
            (la, (aerr, saved), prog, err, ret, opened, first, actions) = oc[:8]
            s2 = st.copy()
            if self.wordmode and len(oc) > 8:
                s2.word = s2.word + oc[8]
            if la != st.la or prog:
                # the current token may have changed: stale token-derived values die
                for k in [k for k, v in s2.vals.items() if self.mentions_cur(v)]:
                    s2.vals.pop(k)
            s2.la = la
            s2.aerr = aerr
            s2.saved = saved
            if prog:
                self.note_progress(s2)
            s2.err = s2.err or err
            ok = True
            precounts = s2.stack[-1][2]
            predepth = len(s2.stack)
            for act in actions:
                if not self.apply_action(ctx, body, b, s2, act):
                    ok = False
                    break
            if not ok:
                continue
            # children opened by the callee at its base level (after its last pop) belong to the node
            # that is innermost now
            self.add_children(s2, opened, first)
            if ret[0] == "cp" and ret[1] is None and ret[3] == 1:
                # a checkpoint taken at the callee's base level denotes our innermost open node
                if len(s2.stack) == predepth:
                    top = s2.stack[-1]
                    ret = ("cp", top[1], cmerge(precounts, ret[2]), len(s2.stack), fn)
                else:
                    ret = UNK
            for item in cont(s2, ret):
                res.append((item[0], item[1], ("call", callee, (callee, st.la, (st.aerr, st.saved), argvals), oc)))
        return res

    def note_progress(self, s):
        s.prog = True
        if s.since:
            s.since = tuple((h, True) for h, _ in s.since)

    # ------------------------------------------------------------------ built-ins
    def deref(self, st, v):
        n = 0
        while v[0] in ("refval", "ref") and n < 5:
            v = v[1] if v[0] == "refval" else st.vals.get(v[1], UNK)
            n += 1
        return v

    def bi_eq(self, st, args, cont):
        a = self.deref(st, args[0]) if args else UNK
        b = self.deref(st, args[1]) if len(args) > 1 else UNK
        if a[0] == "kind" and b == CUR:
            a, b = b, a
        if a == CUR and b[0] == "kind":
            out = []
            if b[1] in st.la:
                s1 = st.copy()
                s1.la = frozenset([b[1]])
                out += cont(s1, ("bool", True))
            rest = st.la - {b[1]}
            if rest:
                s2 = st.copy()
                s2.la = rest
                out += cont(s2, ("bool", False))
            return out
        if a[0] == "kind" and b[0] == "kind":
            return cont(st, ("bool", a[1] == b[1]))
        return cont(st.copy(), ("bool", True)) + cont(st.copy(), ("bool", False))

    def bi_contains(self, st, args, cont):
        lst = self.deref(st, args[0]) if args else UNK
        x = self.deref(st, args[1]) if len(args) > 1 else UNK
        if lst[0] == "list" and x == CUR:
            inset = st.la & frozenset(lst[1])
            rest = st.la - inset
            out = []
            if inset:
                s1 = st.copy()
                s1.la = inset
                out += cont(s1, ("bool", True))
            if rest:
                s2 = st.copy()
                s2.la = rest
                out += cont(s2, ("bool", False))
            return out
        if lst[0] == "list" and x[0] == "kind":
            return cont(st, ("bool", x[1] in lst[1]))
        return cont(st.copy(), ("bool", True)) + cont(st.copy(), ("bool", False))

    def bi_builder(self, ctx, body, b, name, st, args, cont):
        fn = ctx[0]
        site = (fn, b)
        if name == "token":
            # the current token is written to the tree
            if st.saved:
                self.discipline.setdefault(("double-save", fn), body.where(b))
            st.saved = True
            kv = self.deref(st, args[1]) if len(args) > 1 else UNK
            if kv != CUR:
                self.discipline.setdefault(("token-kind-not-current", fn), body.where(b))
            out = []
            if "Eof" in st.la:
                s1 = st.copy()
                s1.la = frozenset(["Eof"])
                out += cont(s1)
            rest = st.la - {"Eof"}
            if rest:
                if self.token_log is not None:
                    self.token_log.append((fn, rest))
                s2 = st.copy()
                s2.la = rest
                self.note_progress(s2)
                if self.wordmode and len(s2.stack) == 1:
                    nt_ = rest - self.trivia
                    if nt_:
                        s2.word = s2.word + (("t", frozenset(nt_)),)
                nt = rest - self.trivia if (rest - self.trivia) else rest
                if len(nt) > 60:
                    nt = frozenset(["<any>"])
                s2.stack = tuple((n[0], n[1], n[2], first_fill(n[3], nt), n[4]) for n in s2.stack)
                out += cont(s2)
            return out
        if name == "start_node":
            kind = args[1] if len(args) > 1 else UNK
            kn = kind[1] if kind[0] == "sk" else "?"
            if kn == "?":
                self.unsupported[(fn, "start_node-kind")] = body.where(b)
            self.node_sites[kn].add(site)
            top = st.stack[-1]
            if self.wordmode and len(st.stack) == 1:
                st.word = st.word + (("open", kn),)
            st.stack = st.stack[:-1] + ((top[0], top[1], self.cadd_k(top[2], kn), top[3], top[4]),) + (mknode(kn, site),)
            return cont(st)
        if name == "checkpoint":
            top = st.stack[-1]
            if self.wordmode and len(st.stack) == 1:
                st.word = st.word + (("cp",),)
            return cont(st, ("cp", top[1], top[2], len(st.stack), fn))
        if name == "start_node_at":
            cp = self.deref(st, args[1]) if len(args) > 1 else UNK
            kind = args[2] if len(args) > 2 else UNK
            kn = kind[1] if kind[0] == "sk" else "?"
            self.node_sites[kn].add(site)
            top = st.stack[-1]
            if self.wordmode and len(st.stack) == 1:
                st.word = st.word + (("open_at", kn),)
            if cp[0] == "cp" and cp[4] == fn and cp[3] == len(st.stack) and cp[1] == top[1] and len(st.stack) > 1:
                wrapped = cdiff(top[2], cp[2])
                ntop = (top[0], top[1], self.cadd_k(cp[2], kn), top[3], top[4])
                st.stack = st.stack[:-1] + (ntop, mknode(kn, site, wrapped, frozenset(["<wrapped>"]) if wrapped else NOFIRST))
                return cont(st)
            if cp[0] == "cp" and cp[4] == fn and len(st.stack) == 1 and cp[3] == 1 and cp[1] is None:
                # checkpoint taken at this function's base level (the enclosing node belongs to a caller)
                top = st.stack[-1]
                wrapped = cdiff(top[2], cp[2])
                ntop = (top[0], top[1], self.cadd_k(cp[2], kn), top[3], top[4])
                st.stack = (ntop, mknode(kn, site, wrapped, frozenset(["<wrapped>"]) if wrapped else NOFIRST))
                return cont(st)
            if cp[0] == "cp" and cp[4] != fn and len(st.stack) == 1:
                # foreign checkpoint (taken in a caller): the caller re-parents on return
                st.stack = st.stack + (mknode(kn, site, (), NOFIRST, ("foreign", cp)),)
                return cont(st)
            self.balance[(fn, "start_node_at")] = {"where": body.where(b), "cp": repr(cp),
                                                   "depth": len(st.stack)}
            st.stack = st.stack + (mknode(kn, site),)
            return cont(st)
        if name == "finish_node":
            if self.wordmode and len(st.stack) <= 2:
                st.word = st.word + (("close",),)
            if len(st.stack) <= 1:
                base = st.stack[0]
                # closes a node opened by a caller: the caller applies it; children opened so far at
                # base level belong to that node, so flush them with the action
                acts = (base[4] or ()) + (("pop", base[2], coarse_first(base[3])),)
                st.stack = ((base[0], base[1], (), NOFIRST, acts),)
                return cont(st)
            node = st.stack[-1]
            st.stack = st.stack[:-1]
            if node[4] and node[4][0] == "foreign":
                base = st.stack[0]
                acts = (base[4] or ()) + (("wrap", node[4][1], node[0], node[2], st.err),)
                st.stack = ((base[0], base[1], base[2], base[3], acts),) + st.stack[1:]
                return cont(st)
            self.children[node[0]].add((node[2], st.err))
            self.firsts[node[0]].add(node[3])
            return cont(st)
        if name == "finish":
            return cont(st)
        return cont(st)

    def add_children(self, s, opened, first):
        s.stack = tuple((n[0], n[1], n[2], first_fill(n[3], first), n[4]) for n in s.stack)
        top = s.stack[-1]
        top = (top[0], top[1], cmerge(top[2], opened), top[3], top[4])
        s.stack = s.stack[:-1] + (top,)

    def apply_action(self, ctx, body, b, s, act):
        kind = act[0]
        if kind == "pop":
            _, opened, first = act
            self.add_children(s, opened, first)
            if len(s.stack) <= 1:
                base = s.stack[0]
                acts = (base[4] or ()) + (("pop", base[2], coarse_first(base[3])),)
                s.stack = ((base[0], base[1], (), NOFIRST, acts),)
                return True
            node = s.stack[-1]
            s.stack = s.stack[:-1]
            if node[4] and node[4][0] == "foreign":
                base = s.stack[0]
                acts = (base[4] or ()) + (("wrap", node[4][1], node[0], node[2], s.err),)
                s.stack = ((base[0], base[1], base[2], base[3], acts),) + s.stack[1:]
                return True
            self.children[node[0]].add((node[2], s.err))
            self.firsts[node[0]].add(node[3])
            return True
        if kind == "push":
            _, kn, site, counts, first, foreign = act
            top = s.stack[-1]
            if foreign and foreign[0] == "foreign":
                cp = foreign[1]
                if cp[0] == "cp" and cp[4] == ctx[0] and cp[1] == top[1] and cp[3] == len(s.stack):
                    wrapped = cmerge(cdiff(top[2], cp[2]), counts)
                    ntop = (top[0], top[1], self.cadd_k(cp[2], kn), top[3], top[4])
                    s.stack = s.stack[:-1] + (ntop, mknode(kn, site, wrapped, first))
                    return True
                if len(s.stack) == 1:
                    # still foreign for us: pass it further up
                    s.stack = s.stack + (mknode(kn, site, counts, first, foreign),)
                    return True
                self.balance[(ctx[0], "start_node_at")] = {"where": body.where(b), "cp": repr(cp)}
                s.stack = s.stack + (mknode(kn, site, counts, first),)
                return True
            ntop = (top[0], top[1], self.cadd_k(top[2], kn), top[3], top[4])
            s.stack = s.stack[:-1] + (ntop, mknode(kn, site, counts, first))
            return True
        _, cp, kn, extra, err = act
        top = s.stack[-1]
        if kind == "wrap":
            if cp[0] == "cp" and cp[4] == ctx[0] and cp[1] == top[1] and cp[3] == len(s.stack):
                wrapped = cmerge(cdiff(top[2], cp[2]), extra)
                # the callee's own additions were merged into top by the caller already: remove them
                ntop_counts = self.cadd_k(cp[2], kn)
                s.stack = s.stack[:-1] + ((top[0], top[1], ntop_counts, top[3], top[4]),)
                self.children[kn].add((wrapped, s.err or err))
                self.firsts[kn].add(frozenset(["<wrapped>"]))
            elif len(s.stack) == 1:
                base = s.stack[0]
                s.stack = ((base[0], base[1], base[2], base[3], (base[4] or ()) + (act,)),)
            else:
                self.balance[(ctx[0], "foreign-checkpoint")] = {"where": body.where(b), "kind": kn}
        return True


def analyse(prog, ck=None):
    ai = ParserAI(prog, ck)
    root = "syntax::grammar::source_file"
    sys.setrecursionlimit(10000)
    ai.run(root)
    return ai
