"""CFG utilities over Body: dominators, path queries, loops."""
from .facts import Body


def dominators(body, entry=0):
    """Immediate-dominator-free simple iterative dominator sets over non-cleanup blocks."""
    nodes = sorted(body.reachable(entry))
    allset = set(nodes)
    dom = {n: set(allset) for n in nodes}
    dom[entry] = {entry}
    changed = True
    while changed:
        changed = False
        for n in nodes:
            if n == entry:
                continue
            preds = [p for p in body.pred(n) if p in allset]
            if not preds:
                new = {n}
            else:
                new = set.intersection(*[dom[p] for p in preds]) | {n}
            if new != dom[n]:
                dom[n] = new
                changed = True
    return dom


def path_exists(body, src, dst_pred, avoid=frozenset(), include_src=False):
    """Is there a CFG path from block `src` (after its terminator) to a block satisfying dst_pred,
    not passing through blocks in `avoid`? Returns the path (list of blocks) or None."""
    start = [src] if include_src else list(body.succ(src))
    prev = {}
    seen = set()
    stack = []
    ROOT = -1
    for s in start:
        if s not in avoid and s not in prev:
            stack.append(s)
            prev[s] = None if include_src else ROOT
    while stack:
        b = stack.pop()
        if b in seen:
            continue
        seen.add(b)
        if dst_pred(b):
            path = [b]
            guard = 0
            while prev.get(path[-1]) is not None and prev[path[-1]] != ROOT and guard <= len(body.blocks) + 2:
                path.append(prev[path[-1]])
                guard += 1
            if not include_src:
                path.append(src)
            return list(reversed(path))
        for s in body.succ(b):
            if s not in seen and s not in avoid:
                if s not in prev:
                    prev[s] = b
                stack.append(s)
    return None


def blocks_calling(body, pred):
    """set of blocks whose terminator is a call with callee satisfying pred"""
    out = set()
    for i, t in body.calls():
        c = Body.callee(t)
        if c is not None and pred(c):
            out.add(i)
    return out


def back_edges(body):
    dom = dominators(body)
    out = []
    for n in dom:
        for s in body.succ(n):
            if s in dom[n]:
                out.append((n, s))
    return out


def natural_loop(body, tail, head):
    loop = {head, tail}
    st = [tail]
    while st:
        b = st.pop()
        if b == head:
            continue
        for p in body.pred(b):
            if p not in loop:
                loop.add(p)
                st.append(p)
    return loop


def loops(body):
    """list of (head, set(blocks)) for natural loops (merged per head)."""
    by_head = {}
    for t, h in back_edges(body):
        by_head.setdefault(h, set()).update(natural_loop(body, t, h))
    return sorted(by_head.items())
