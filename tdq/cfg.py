"""CFG utilities over Body: dominators, path queries, loops."""
from .facts import Body


def dominators(body, entry=0):
    """Immediate-dominator-free simple iterative dominator sets over non-cleanup blocks."""
    nodes = sorted(body.reachable(entry))
    allset = set(nodes)
    dom = {n: set(allset) for n in nodes}
    dom[entry] = {entry}
    changed = True
    while changed:
        changed = False
        for n in nodes:
            if n == entry:
                continue
            preds = [p for p in body.pred(n) if p in allset]
            if not preds:
                new = {n}
            else:
                new = set.intersection(*[dom[p] for p in preds]) | {n}
            if new != dom[n]:
                dom[n] = new
                changed = True
    return dom


def path_exists(body, src, dst_pred, avoid=frozenset(), include_src=False):
    """Is there a CFG path from block `src` (after its terminator) to a block satisfying dst_pred,
    not passing through blocks in `avoid`? Returns the path (list of blocks) or None."""
    start = [src] if include_src else list(body.succ(src))
    prev = {}
    seen = set()
    stack = []
    ROOT = -1
    for s in start:
        if s not in avoid and s not in prev:
            stack.append(s)
            prev[s] = None if include_src else ROOT
    while stack:
        b = stack.pop()
        if b in seen:
            continue
        seen.add(b)
        if dst_pred(b):
            path = [b]
            guard = 0
            while prev.get(path[-1]) is not None and prev[path[-1]] != ROOT and guard <= len(body.blocks) + 2:
                path.append(prev[path[-1]])
                guard += 1
            if not include_src:
                path.append(src)
            return list(reversed(path))
        for s in body.succ(b):
            if s not in seen and s not in avoid:
                if s not in prev:
                    prev[s] = b
                stack.append(s)
    return None


def blocks_calling(body, pred):
    """set of blocks whose terminator is a call with callee satisfying pred"""
    out = set()
    for i, t in body.calls():
        c = Body.callee(t)
        if c is not None and pred(c):
            out.add(i)
    return out


def back_edges(body):
    dom = dominators(body)
    out = []
    for n in dom:
        for s in body.succ(n):
            if s in dom[n]:
                out.append((n, s))
    return out


def natural_loop(body, tail, head):
    loop = {head, tail}
    st = [tail]
    while st:
        b = st.pop()
        if b == head:
            continue
        for p in body.pred(b):
            if p not in loop:
                loop.add(p)
                st.append(p)
    return loop


def loops(body):
    """list of (head, set(blocks)) for natural loops (merged per head)."""
    by_head = {}
    for t, h in back_edges(body):
        by_head.setdefault(h, set()).update(natural_loop(body, t, h))
    return sorted(by_head.items())


# ---------------------------------------------------------------------------------------------------------------------
# path-sensitive variant of path_exists: infeasible paths through `Some(x)?` / bool temporaries are not followed

def _const_int(op):
    c = op.get("const") if isinstance(op, dict) else None
    return c.get("int") if c else None


def _bare_local(op):
    if not isinstance(op, dict):
        return None
    pl = op.get("copy") or op.get("move")
    if pl is not None and not pl["p"]:
        return pl["l"]
    return None


def _step_env(body, blk, env):
    """abstract values of locals after the statements of `blk`: ('int', n) | ('variant', index)"""
    e = dict(env)
    for s_ in body.blocks[blk]["s"]:
        a = s_.get("a")
        if not a or a["p"]:
            continue
        rv = s_.get("rv") or {}
        v = None
        if "use" in rv:
            n = _const_int(rv["use"])
            if n is not None:
                v = ("int", n)
            else:
                src = _bare_local(rv["use"])
                v = e.get(src) if src is not None else None
        elif isinstance(rv.get("agg"), dict) and "vidx" in rv["agg"]:
            v = ("variant", rv["agg"]["vidx"])
        elif "discr" in rv and not rv["discr"]["p"]:
            src = e.get(rv["discr"]["l"])
            if src and src[0] == "variant":
                v = ("int", src[1])
        if v is None:
            e.pop(a["l"], None)
        else:
            e[a["l"]] = v
    return e


def feasible_path_exists(body, src, dst_pred, avoid=frozenset(), include_src=False, limit=40000):
    """like path_exists, but tracks constants and enum variants held by whole locals along the path and follows only the
    matching arm of a switch on such a local; `Try::branch` of a known Some/Ok yields Continue, of None/Err Break.
    Over-approximates feasibility (unknown values follow every arm): `None` is a proof that no feasible path exists."""
    start = [src] if include_src else list(body.succ(src))
    seen = set()
    st = []
    env0 = frozenset()
    if not include_src:
        env0 = frozenset(_after_term(body, src, _step_env(body, src, {})).items())
    for s in start:
        st.append((s, env0, (s,)))
    n = 0
    while st:
        blk, env, path = st.pop()
        if blk in avoid or body.is_cleanup(blk) or (blk, env) in seen:
            continue
        seen.add((blk, env))
        n += 1
        if n > limit:
            return list(path)          # give up: report as feasible
        if dst_pred(blk):
            return list(path)
        e = _step_env(body, blk, dict(env))
        t = body.blocks[blk]["term"]
        nxt = body.succ(blk)
        if t["k"] == "switch":
            dl = _bare_local(t["d"])
            if dl is not None and e.get(dl, ("?",))[0] == "int":
                nxt = [dict((v, tg) for v, tg in t["arms"]).get(e[dl][1], t["else"])]
        e = _after_term(body, blk, e)
        fe = frozenset(e.items())
        for x in nxt:
            st.append((x, fe, path + (x,) if len(path) < 60 else path))
    return None


def _after_term(body, blk, e):
    t = body.blocks[blk]["term"]
    if t["k"] == "call" and t.get("dest") and not t["dest"]["p"]:
        f = (t["f"].get("fn") or "")
        v = None
        if f.endswith("as std::ops::Try>::branch") and t["args"]:
            src = _bare_local(t["args"][0])
            sv = e.get(src) if src is not None else None
            if sv and sv[0] == "variant":
                if "option::Option" in f:
                    v = ("variant", 0 if sv[1] == 1 else 1)      # Some -> Continue, None -> Break
                elif "result::Result" in f:
                    v = ("variant", 0 if sv[1] == 0 else 1)      # Ok -> Continue, Err -> Break
        e = dict(e)
        if v is None:
            e.pop(t["dest"]["l"], None)
        else:
            e[t["dest"]["l"]] = v
    return e
