"""Exhaustive evaluation of a small MIR function over a finite abstract domain.

Used to read the transition table of a hand-written scanner loop off its MIR: the loop's state is a handful of
bool / small-integer locals, its input one abstract character (a class representative) per `Scanner::eat`. Every
(state, input) pair is evaluated by following the MIR (constants, copies, comparisons, switches); calls are answered by
a rule-supplied oracle (the scanner API, whose semantics are the trusted base). Anything else fails closed."""


class Unsupported(Exception):
    pass


class Stop(Exception):
    def __init__(self, what, value=None):
        self.what, self.value = what, value


def const_of(op):
    c = op.get("const") if isinstance(op, dict) else None
    if c is None:
        return None
    if "int" in c:
        return ("int", c["int"])
    v = c.get("val")
    if v in ("true", "false"):
        return ("int", 1 if v == "true" else 0)
    if v == "()":
        return ("unit",)
    if isinstance(v, str) and v.startswith('"'):
        return ("str", v[1:-1])
    return ("const", v)


class Frame:
    def __init__(self, body, oracle, max_steps=4000):
        self.body = body
        self.oracle = oracle
        self.locals = {}
        self.steps = 0
        self.max_steps = max_steps
        self.trace = []

    # ---- places / operands
    def read_place(self, pl):
        v = self.locals.get(pl["l"])
        for p in pl["p"]:
            if p == "*":
                if v is not None and v[0] == "ref":
                    v = self.read_place(v[1])
                continue
            if isinstance(p, dict) and "dc" in p:
                continue            # downcast: the variant was already selected by a switch
            if isinstance(p, dict) and "f" in p:
                if v is None:
                    raise Unsupported("field of unknown value")
                if v[0] == "some" and p["f"] == 0:
                    v = v[1]
                elif v[0] == "tuple":
                    v = v[1][p["f"]]
                elif v[0] == "self":
                    v = ("self", v[1] + (p.get("n"),))
                else:
                    raise Unsupported("field %s of %s" % (p, v[0]))
                continue
            raise Unsupported("projection %s" % (p,))
        return v

    def operand(self, op):
        c = const_of(op)
        if c is not None:
            return c
        for k in ("copy", "move"):
            if k in op:
                return self.read_place(op[k])
        raise Unsupported("operand %s" % (op,))

    def rvalue(self, rv):
        if "use" in rv:
            return self.operand(rv["use"])
        if "ref" in rv:
            return ("ref", rv["ref"])
        if "discr" in rv:
            v = self.read_place(rv["discr"])
            if v is None:
                raise Unsupported("discriminant of unknown value")
            if v[0] == "some":
                return ("int", 1)
            if v[0] == "none":
                return ("int", 0)
            if v[0] == "variant":
                return ("int", v[2])
            raise Unsupported("discriminant of %s" % (v[0],))
        if "binop" in rv:
            a, b = self.operand(rv["a"]), self.operand(rv["b"])
            if a[0] != "int" or b[0] != "int":
                raise Unsupported("binop on %s/%s" % (a[0], b[0]))
            x, y = a[1], b[1]
            op = rv["binop"]
            table = {"Eq": x == y, "Ne": x != y, "Lt": x < y, "Le": x <= y, "Gt": x > y, "Ge": x >= y}
            if op in table:
                return ("int", 1 if table[op] else 0)
            if op in ("Add", "AddWithOverflow", "AddUnchecked"):
                return ("int", x + y) if op != "AddWithOverflow" else ("tuple", [("int", x + y), ("int", 0)])
            if op in ("Sub", "SubWithOverflow", "SubUnchecked"):
                if op == "SubWithOverflow":
                    return ("tuple", [("int", x - y), ("int", 1 if x - y < 0 else 0)])
                return ("int", x - y)
            if op in ("BitAnd", "BitOr", "BitXor"):
                return ("int", {"BitAnd": x & y, "BitOr": x | y, "BitXor": x ^ y}[op])
            raise Unsupported("binop %s" % op)
        if "unop" in rv:
            a = self.operand(rv["a"])
            if rv["unop"] == "Not" and a[0] == "int":
                return ("int", 0 if a[1] else 1)
            raise Unsupported("unop %s" % rv["unop"])
        if "agg" in rv and isinstance(rv["agg"], dict) and "variant" in rv["agg"]:
            return ("variant", rv["agg"]["variant"], rv["agg"].get("vidx", 0), [self.operand(o) for o in rv.get("ops", [])])
        if "agg" in rv:
            return ("tuple", [self.operand(o) for o in rv.get("ops", [])])
        if "cast" in rv:
            return self.operand(rv["cast"])
        raise Unsupported("rvalue %s" % sorted(rv))

    def write(self, pl, val):
        if pl["p"]:
            # writes through projections are not needed for scanner state
            base = self.locals.get(pl["l"])
            if base is not None and base[0] == "ref" and pl["p"] == ["*"]:
                self.write(base[1], val)
                return
            raise Unsupported("projected write %s" % (pl,))
        self.locals[pl["l"]] = val

    # ---- execution
    def run(self, start, stop_blocks=()):
        """execute from block `start` until a return (-> ('return', value)) or a block of stop_blocks is about to be
        entered again (-> ('at', block))."""
        b = start
        first = True
        while True:
            self.steps += 1
            if self.steps > self.max_steps:
                raise Unsupported("step limit")
            if not first and b in stop_blocks:
                return ("at", b)
            first = False
            bb = self.body.blocks[b]
            for s in bb["s"]:
                if "a" in s:
                    self.write(s["a"], self.rvalue(s["rv"]))
            t = bb["term"]
            k = t["k"]
            if k == "return":
                return ("return", self.locals.get(0))
            if k in ("goto", "drop"):
                b = t["t"]
            elif k == "assert":
                b = t["t"]
            elif k == "switch":
                v = self.operand(t["d"])
                if v is None or v[0] != "int":
                    raise Unsupported("switch on %s" % (v,))
                nxt = t["else"]
                for val, tgt in t["arms"]:
                    if val == v[1]:
                        nxt = tgt
                b = nxt
            elif k == "call":
                callee = (t["f"].get("fn") or t["f"].get("decl") or "?")
                args = []
                for a in t["args"]:
                    try:
                        args.append(self.operand(a))
                    except Unsupported:
                        args.append(None)
                res = self.oracle(self, callee, args, t)
                self.trace.append((callee, res))
                if t["t"] is None:
                    return ("diverge", callee)
                self.write(t["dest"], res)
                b = t["t"]
            else:
                raise Unsupported("terminator %s" % k)


class ScannerModel:
    """unscanny::Scanner over a concrete short string, as an oracle for Frame: the documented semantics of the few
    methods the lexer's scanner loops use (trusted base). Anything else is Unsupported (the rule then fails closed)."""

    def __init__(self, text, extra=None, char_fn=None):
        self.text = text
        self.pos = 0
        self.extra = extra or {}
        self.char_fn = char_fn          # (callee or closure path, char) -> bool | None : predicates used as scanner patterns

    def _pat_matches(self, fr, t, args):
        """length of the match of the pattern operand (args[1]) at the cursor: a char / str constant, or a predicate
        (fn item or closure) applied to the next character"""
        raw = t["args"][1] if len(t["args"]) > 1 else None
        if isinstance(raw, dict) and raw.get("const") is not None and "fn" not in raw:
            pat = self.pattern(args[1])
            return len(pat) if self.text.startswith(pat, self.pos) else 0
        fn = None
        if isinstance(raw, dict) and raw.get("fn"):
            fn = raw["fn"]
        else:
            for ga in (t["f"].get("args") or []):
                if isinstance(ga, dict) and (ga.get("closure") or ga.get("fn")):
                    fn = ga.get("closure") or ga.get("fn")
        if fn is None or self.char_fn is None:
            if args[1] is not None:
                pat = self.pattern(args[1])
                return len(pat) if self.text.startswith(pat, self.pos) else 0
            raise Unsupported("scanner pattern is neither a constant nor a known predicate")
        if self.pos >= len(self.text):
            return 0
        v = self.char_fn(fn, self.text[self.pos])
        if v is None:
            raise Unsupported("pattern predicate %s could not be evaluated" % fn)
        return 1 if v else 0

    @staticmethod
    def pattern(v):
        if v is None:
            raise Unsupported("scanner pattern is not a constant")
        if v[0] == "int":
            return chr(v[1])
        if v[0] == "str":
            return bytes(v[1], "utf-8").decode("unicode_escape") if "\\" in v[1] else v[1]
        raise Unsupported("scanner pattern %s" % (v[0],))

    def __call__(self, fr, callee, args, t):
        name = callee.rsplit("::", 1)[-1]
        if "unscanny::Scanner" in callee:
            if name == "eat":
                if self.pos >= len(self.text):
                    return ("none",)
                c = self.text[self.pos]
                self.pos += 1
                return ("some", ("int", ord(c)))
            if name == "peek":
                if self.pos >= len(self.text):
                    return ("none",)
                return ("some", ("int", ord(self.text[self.pos])))
            if name == "eat_until":
                raw = t["args"][1] if len(t["args"]) > 1 else None
                if isinstance(raw, dict) and raw.get("const") is not None and "fn" not in raw:
                    pat = self.pattern(args[1] if len(args) > 1 else None)
                    rest = self.text[self.pos:]
                    i = rest.find(pat)
                    start = self.pos
                    self.pos = len(self.text) if i < 0 else self.pos + i
                    return ("str", self.text[start:self.pos])
                start = self.pos                 # a predicate (or a pattern _pat_matches can read): stop at its first match
                while self.pos < len(self.text) and not self._pat_matches(fr, t, args):
                    self.pos += 1
                return ("str", self.text[start:self.pos])
            if name in ("eat_if", "at"):
                k = self._pat_matches(fr, t, args)
                if k and name == "eat_if":
                    self.pos += k
                return ("int", 1 if k else 0)
            if name == "eat_while":
                start = self.pos
                while self.pos < len(self.text):
                    k = self._pat_matches(fr, t, args)
                    if not k:
                        break
                    self.pos += k
                return ("str", self.text[start:self.pos])
            if name in ("get", "from", "to"):
                a = args[1] if len(args) > 1 else None
                if name == "from" and a is not None and a[0] == "int":
                    return ("str", self.text[a[1]:self.pos])
                if name == "get" and a is not None and a[0] == "variant" and len(a[3]) == 2 and all(x and x[0] == "int" for x in a[3]):
                    return ("str", self.text[a[3][0][1]:a[3][1][1]])
                raise Unsupported("scanner method %s with an unevaluated range" % name)
            if name == "scout":
                n = args[1] if len(args) > 1 else None
                if n is None or n[0] != "int":
                    raise Unsupported("scout with a non-constant offset")
                k = n[1]
                if k >= 2 ** 63:
                    k -= 2 ** 64
                idx = self.pos + k if k >= 0 else self.pos + k
                if 0 <= idx < len(self.text):
                    return ("some", ("int", ord(self.text[idx])))
                return ("none",)
            if name == "uneat":
                if self.pos > 0:
                    self.pos -= 1
                    return ("some", ("int", ord(self.text[self.pos])))
                return ("none",)
            if name == "done":
                return ("int", 1 if self.pos >= len(self.text) else 0)
            if name == "cursor":
                return ("int", self.pos)
            raise Unsupported("scanner method %s" % name)
        for suffix, fn in self.extra.items():
            if callee.endswith(suffix):
                return fn(fr, args, t)
        if callee.endswith("PartialEq>::eq") or callee.endswith("PartialEq>::ne"):
            vals = []
            for a in args[:2]:
                n = 0
                while a is not None and a[0] == "ref" and n < 4:
                    a = fr.read_place(a[1])
                    n += 1
                if a is None:
                    raise Unsupported("comparison of an unknown value")
                vals.append(a)
            same = vals[0] == vals[1]
            return ("int", 1 if (same == callee.endswith("::eq")) else 0)
        raise Unsupported("call to %s" % callee)
