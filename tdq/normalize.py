"""MIR shape normalisations applied to the in-memory facts (after renames and inlining).

enum_eq_to_switch: `if kind == TokenKind::X {..}` compiles to a call of the derived `PartialEq::eq` followed by a switch on
the bool; `match kind { TokenKind::X => .. }` compiles to a switch on the discriminant. The rules that read token
dispatch tables (preprocessor directives, skip loops, end-of-input exits) are written against the second shape, so the
first is rewritten into it: in the block of the call `_n = discriminant(place)` is appended and the call is replaced by
`switch(_n) [discr(X) -> target-if-equal] else target-if-different`. Only done when the comparison's result is used by
nothing but an immediately following switch (block without statements), for the fieldless enums listed in ENUMS, whose
derived `eq` compares discriminants."""
import re

ENUMS = ("syntax::token_kind::TokenKind",)


def _single_defs(body):
    d = {}
    for bi, bb in enumerate(body["blocks"]):
        for st in bb["s"]:
            a = st.get("a")
            if a and not a["p"]:
                d.setdefault(a["l"], []).append(st.get("rv") or {})
        t = bb["term"]
        if t["k"] == "call" and t.get("dest") and not t["dest"]["p"]:
            d.setdefault(t["dest"]["l"], []).append({"call": True})
    return d


def _uses(body, local):
    import json
    n = 0
    pat = '"l": %d,' % local
    for bb in body["blocks"]:
        n += json.dumps(bb).count(pat)
    return n


def _resolve(defs, op, depth=0):
    """operand -> ('const', variant name) | ('place', place) | None, through `&x`, `&*p` and copies"""
    if not isinstance(op, dict) or depth > 5:
        return None
    c = op.get("const")
    if c is not None:
        m = re.search(r"([A-Za-z_0-9:]+)::([A-Za-z_0-9]+)$", str(c.get("val", "")).lstrip("&"))
        return ("const", m.group(1), m.group(2)) if m else None
    pl = op.get("move") or op.get("copy")
    if pl is None:
        return None
    if pl["p"] and pl["p"] != ["*"]:
        return None
    ds = defs.get(pl["l"], [])
    if len(ds) != 1:
        return None
    rv = ds[0]
    if "ref" in rv:
        r = rv["ref"]
        if r["p"] == ["*"]:          # &*p : what p refers to
            return _resolve(defs, {"copy": {"l": r["l"], "p": []}}, depth + 1)
        inner = defs.get(r["l"], [])
        if not r["p"] and len(inner) == 1 and "use" in inner[0] and isinstance(inner[0]["use"], dict) and inner[0]["use"].get("const") is not None:
            return _resolve(defs, inner[0]["use"], depth + 1)
        return ("place", r)
    if "use" in rv:
        return _resolve(defs, rv["use"], depth + 1)
    return None


def enum_eq_to_switch(raws, crates):
    notes = 0
    discr = {}
    for cname, raw in raws.items():
        for a in raw.get("adts", []):
            if a["path"] in ENUMS and all(not v.get("fields") for v in a["variants"]):
                discr[a["path"]] = {v["name"]: v["discr"] for v in a["variants"]}
    if not discr:
        return 0
    for cname, raw in raws.items():
        if cname not in crates:
            continue
        for body in raw["bodies"]:
            defs = None
            for bi, bb in enumerate(body["blocks"]):
                t = bb["term"]
                if t["k"] != "call" or not isinstance(t.get("f"), dict) or t.get("t") is None or t.get("dest") is None or t["dest"]["p"]:
                    continue
                fn = t["f"].get("fn") or ""
                enum = None
                for e in discr:
                    if fn in ("<%s as std::cmp::PartialEq>::eq" % e, "<%s as std::cmp::PartialEq>::ne" % e) or \
                            (fn in ("std::cmp::PartialEq::ne", "std::cmp::PartialEq::eq") and
                             any(isinstance(g, dict) and g.get("ty") == e for g in (t["f"].get("args") or [])[:1])):
                        enum = e
                if enum is None or len(t["args"]) != 2:
                    continue
                nb = body["blocks"][t["t"]]
                nt = nb["term"]
                if nb["s"] or nt["k"] != "switch":
                    continue
                d = nt["d"].get("move") or nt["d"].get("copy")
                if not d or d["p"] or d["l"] != t["dest"]["l"] or len(nt["arms"]) != 1 or nt["arms"][0][0] != 0:
                    continue
                if _uses(body, t["dest"]["l"]) != 2:
                    continue
                defs = defs or _single_defs(body)
                a0, a1 = _resolve(defs, t["args"][0]), _resolve(defs, t["args"][1])
                const, place = (a0, a1) if a0 and a0[0] == "const" else (a1, a0)
                if not const or const[0] != "const" or not place or place[0] != "place":
                    continue
                if const[1] != enum or const[2] not in discr[enum]:
                    continue
                k = discr[enum][const[2]]
                false_t, true_t = nt["arms"][0][1], nt["else"]
                if fn.endswith("::ne"):
                    false_t, true_t = true_t, false_t
                new = len(body["locals"])
                body["locals"].append({"t": "isize", "n": None})
                bb["s"].append({"a": {"l": new, "p": []}, "rv": {"discr": place[1], "of": enum}, "ln": t.get("ln")})
                bb["term"] = {"k": "switch", "d": {"move": {"l": new, "p": []}}, "arms": [[k, true_t]], "else": false_t, "ln": t.get("ln")}
                notes += 1
    return notes
