"""Typed-AST facts read from MIR: which SyntaxKinds each ast type casts from, and what each accessor
selects (child / children / nth(i) of which ast type)."""
import re

from . import paths
from .facts import Body, op_const

SYNTAXKIND = "syntax::syntax_kind::SyntaxKind"


def ast_types(prog):
    out = {}
    for i in prog.impls:
        if i.get("trait") != "rowan::ast::AstNode":
            continue
        ty = i["self"]
        cc = None
        for it in i["items"]:
            if it["name"] == "can_cast":
                cc = prog.body(it["path"])
        if cc is None:
            continue
        adt = prog.adts.get(ty)
        is_enum = bool(adt and adt["is_enum"])
        kinds = set()
        if is_enum:
            vt = paths.variant_table(cc, prog, SYNTAXKIND)
            kinds = {k for k, v in vt.items() if v == {("const", "true")}}
        else:
            for bb in cc.blocks:
                for s in bb["s"]:
                    rv = s.get("rv") or {}
                    if "agg" in rv and isinstance(rv["agg"], dict) and rv["agg"].get("adt") == SYNTAXKIND:
                        kinds.add(rv["agg"]["variant"])
                    c = op_const(rv.get("use")) if isinstance(rv.get("use"), dict) else None
                    if c and c["ty"].endswith(SYNTAXKIND):
                        kinds.add(c["val"].rsplit("::", 1)[-1])
                t = bb["term"]
                if t["k"] == "call":
                    for a in t["args"]:
                        c = op_const(a)
                        if c and c["ty"].endswith(SYNTAXKIND):
                            kinds.add(c["val"].rsplit("::", 1)[-1])
        out[ty] = {"kinds": kinds, "is_enum": is_enum,
                   "variants": [v["name"] for v in adt["variants"]] if is_enum else [],
                   "variant_types": [v["fields"][0]["t"] if v["fields"] else None for v in adt["variants"]] if is_enum else []}
    return out


def accessors(prog):
    """fn path -> dict(self=ast type, mode, target=ast type, index)"""
    out = {}
    for p, b in prog.bodies.items():
        if not p.startswith("syntax::ast::") or b.parent or not b.impl_self:
            continue
        mode = None
        target = None
        index = None
        for _, t in b.calls():
            c = Body.callee(t) or ""
            if c == "rowan::ast::support::child":
                mode = "child"
                target = t["f"]["args"][0]["ty"]
            elif c == "rowan::ast::support::children":
                if mode is None:
                    mode = "children"
                target = t["f"]["args"][0]["ty"]
            elif c == "std::iter::Iterator::nth" and mode == "children":
                k = op_const(t["args"][1]) if len(t["args"]) > 1 else None
                if k is not None and "int" in k:
                    mode = "nth"
                    index = k["int"]
        if mode:
            out[p] = {"self": b.impl_self, "mode": mode, "target": target, "index": index}
    return out


def kinds_of(types, ty):
    t = types.get(ty)
    return set(t["kinds"]) if t else set()
