"""Extraction of tables shared by several properties (lexer tables, parser dispatch)."""
from . import paths, ref
from .facts import Body

LEXER = "syntax::lexer::Lexer::<'a>::"
TOKENKIND = "syntax::token_kind::TokenKind"


def _single(ck, what, results):
    res = list(results)
    ck.anchor(len(res) == 1, "%s has ambiguous results %r" % (what, res))
    return res[0]


def lexer_tables(ck, prog):
    out = {}
    ib = prog.body(LEXER + "identifier")
    ck.anchor(ib is not None, "Lexer::identifier not found")
    tab, default, _tb = paths.str_table_deep(ib, prog)
    kws = {}
    for lit, results in tab.items():
        r = _single(ck, "keyword '%s'" % lit, results)
        ck.anchor(r[0] == "variant" and r[1] == TOKENKIND, "keyword arm '%s' returns %r" % (lit, r))
        kws[lit] = r[2]
    out["keywords"] = kws
    if _tb is not ib:
        # the table lives in a helper returning Option: the fallback is the constant given to unwrap_or in identifier()
        default = []
        for _, t in ib.calls():
            if (Body.callee(t) or "").endswith("Option::<T>::unwrap_or"):
                for a in t["args"]:
                    c = a.get("const") if isinstance(a, dict) else None
                    pl = (a.get("move") or a.get("copy")) if isinstance(a, dict) else None
                    if c is None and pl is not None and not pl["p"]:
                        d = ib.single_def(pl["l"])
                        if d and d[0] == "stmt" and isinstance(d[3], dict):
                            if isinstance(d[3].get("agg"), dict) and d[3]["agg"].get("adt") == TOKENKIND:
                                default.append(("variant", TOKENKIND, d[3]["agg"]["variant"]))
                            elif isinstance(d[3].get("use"), dict):
                                c = d[3]["use"].get("const")
                    if c and c.get("ty", "").endswith(TOKENKIND):
                        default.append(("variant", TOKENKIND, c["val"].rsplit("::", 1)[-1]))
    out["ident_default"] = default
    out["ident_pred_fn"] = scan_predicates(ib)

    bb = prog.body(LEXER + "bangoperator")
    ck.anchor(bb is not None, "Lexer::bangoperator not found")
    tab, default, _tb = paths.str_table_deep(bb, prog)
    ops = {}
    for lit, results in tab.items():
        r = _single(ck, "operator '%s'" % lit, results)
        ck.anchor(r[0] == "variant" and r[1] == TOKENKIND, "operator arm '%s' returns %r" % (lit, r))
        ops[lit] = r[2]
    out["bangops"] = ops
    out["bang_default"] = default
    preds = scan_predicates(bb)
    out["bang_pred_fn"] = preds
    fns = [ref.CHAR_PREDICATES.get(p) for p in preds]
    ck.anchor(len(preds) == 1 and fns[0] is not None,
              "bang-operator scanner uses an unknown character predicate: %r" % (preds,))
    out["bang_pred"] = fns[0]

    pb = prog.body(LEXER + "preprocessor")
    ck.anchor(pb is not None, "Lexer::preprocessor not found")
    tab, default, _tb = paths.str_table_deep(pb, prog)
    pps = {}
    for lit, results in tab.items():
        r = _single(ck, "directive '%s'" % lit, results)
        pps[lit] = r[2] if r[0] == "variant" else r
    out["directives"] = pps
    out["directive_pred_fn"] = scan_predicates(pb)
    return out


def scan_predicates(body):
    """function items handed to Scanner::eat_while in this body (resolved paths)"""
    out = []
    for _, t in body.calls():
        c = Body.callee(t) or ""
        if c.startswith("unscanny::Scanner") and c.endswith("::eat_while"):
            for a in t["args"][1:]:
                if "fn" in a:
                    out.append(a["fn"])
                else:
                    out.append("<non-fn-item pattern>")
    return out


def statement_dispatch(ck, prog, fn="syntax::grammar::statement::statement"):
    """TokenKind variant -> first grammar function called on that arm ('ERROR' for the error arm)."""
    b = prog.body(fn)
    ck.anchor(b is not None, "%s not found" % fn)
    variants = {v["discr"]: v["name"] for v in prog.adts[TOKENKIND]["variants"]}
    table = {}
    for p in paths.enum_paths(b, prog):
        if p.end != "return":
            continue
        chosen = None
        excluded = set()
        for e in p.events:
            if e[0] == "branch" and e[2].kind == "discr" and e[2].data[1] == TOKENKIND:
                if isinstance(e[3], tuple):
                    excluded |= set(e[3][1])
                else:
                    chosen = e[3]
        target = None
        for e in p.events:
            if e[0] == "call":
                c = Body.callee(e[2]) or ""
                if c.endswith("::peek"):
                    continue
                if "::error" in c:
                    target = "ERROR"
                else:
                    target = c
                break
        kinds = [variants[chosen]] if chosen is not None else [n for d, n in variants.items() if d not in excluded]
        for k in kinds:
            table[k] = target
    ck.anchor(table, "no dispatch table in %s" % fn)
    return table
