"""C04: the parser's error-free language against the documented grammar, node kind by node kind.

code side : region DFA of every node kind (tdq.grammar_lang.code_nfa over the recorded abstract-interpretation
            graphs): the sequences of tokens and non-empty child nodes the parser can put directly inside the node
            without recording an error.
doc side  : region DFA of every documented rule that is also a node kind: right-hand side with rules that are not
            node kinds expanded in place.
comparison: for a set C of node kinds treated as opaque symbols on both sides, L_code(K;C) and L_doc(K;C) are the
            region languages with every non-C child replaced by its own (non-empty) language. If C cuts every
            cycle and L_code(K;C) = L_doc(K;C) for all K in C and for the root, the token languages are equal
            (induction on derivation depth). C starts as all shared kinds; a kind whose node extent differs from
            the documented rule's extent (the node includes the brackets, the rule does not) is made transparent
            when that lets its parents agree."""
import os
import pickle
import time

from . import automata as fa
from . import docgrammar, grammar_lang
from .facts import REPO


def load_model(prog):
    path = os.path.join(prog.dir, "grammar_lang.pkl") if getattr(prog, "dir", None) else None
    here = os.path.dirname(os.path.abspath(__file__))
    srcs = [os.path.join(here, f) for f in ("parser_ai.py", "grammar_lang.py", "grammar_cmp.py", "paths.py", "facts.py",
                                            "inline.py", "renames.py", "normalize.py", "anchors.json", "cfg.py") if os.path.exists(os.path.join(here, f))]
    if path and os.path.exists(path) and all(os.path.getmtime(path) >= os.path.getmtime(f) for f in srcs):
        try:
            with open(path, "rb") as f:
                return pickle.load(f)
        except Exception:
            pass
    m = grammar_lang.CodeModel(prog)
    lite = LiteModel(m)
    if path:
        with open(path + ".tmp", "wb") as f:
            pickle.dump(lite, f)
        os.replace(path + ".tmp", path)
    return lite


class _AI:
    pass


class LiteModel:
    """what code_nfa needs from CodeModel, picklable"""

    def __init__(self, m):
        self.edges = m.edges
        self.entry = m.entry
        self.problems = list(m.problems)
        self.wall = m.wall
        self.trivia = frozenset(m.ai.trivia)
        self.bang = frozenset(m.ai._true_set("syntax::token_kind::TokenKind::is_bang_operator"))
        self.cond = frozenset(m.ai._true_set("syntax::token_kind::TokenKind::is_cond_operator"))
        self.unsupported = dict(m.ai.unsupported)
        self.contexts = len(m.graphs)
        self._at = grammar_lang.CodeModel.open_at_kinds(m)
        self._has = grammar_lang.CodeModel.fns_with_open_at(m)
        self.ai = _AI()
        self.ai.trivia = self.trivia

        # node variants: the calling context (function, abstract arguments) a node kind is opened in
        var = {}
        for ctx, adj in self.edges.items():
            if ctx[2][0]:
                continue
            for outs in adj.values():
                for (k, pl, d) in outs:
                    if k in ("word", "pword"):
                        for w in (pl if k == "word" else pl[1]):
                            if w[0] == "open":
                                var.setdefault(w[1], set()).add((ctx[0], ctx[3]))
                            elif w[0] == "cp":
                                for kk in self._at.get(w[1], ()):
                                    var.setdefault(kk, set()).add((ctx[0], ctx[3]))
        self.variants = {k: sorted(v, key=repr) for k, v in var.items()}
        self._vid = {(k, v): i for k, vs in self.variants.items() for i, v in enumerate(vs)}

    def variant_id(self, kind, ctx):
        return self._vid.get((kind, (ctx[0], ctx[3])), -1)

    def open_at_kinds(self):
        return self._at

    def fns_with_open_at(self):
        return self._has

    def node_kinds(self):
        ks = set()
        for adj in self.edges.values():
            for outs in adj.values():
                for (k, pl, d) in outs:
                    if k in ("word", "pword"):
                        for w in (pl if k == "word" else pl[1]):
                            if w[0] in ("open", "open_at"):
                                ks.add(w[1])
        return ks


class Doc:
    def __init__(self, rules, bang, cond, node_kinds):
        self.rules = rules
        self.bang, self.cond = bang, cond
        self.node_kinds = node_kinds
        self.notes = []
        self.problems = []
        self.n = 0
        self._null = None

    def resolve(self, name):
        if name in self.rules:
            return name
        best = None
        for r in self.rules:
            d = grammar_lang.edit_distance(name.lower(), r.lower())
            if d <= 2 and (best is None or d < best[0]):
                best = (d, r)
        if best:
            note = "documented nonterminal %s read as %s" % (name, best[1])
            if note not in self.notes:
                self.notes.append(note)
            return best[1]
        return None

    def nullable(self, name):
        if self._null is None:
            null = {r: False for r in self.rules}

            def ev(a):
                k = a[0]
                if k in ("term", "lex"):
                    return False
                if k == "nt":
                    r = self.resolve(a[1])
                    return null.get(r, False)
                if k == "seq":
                    return all(ev(x) for x in a[1])
                if k == "alt":
                    return any(ev(x) for x in a[1])
                if k in ("opt", "star"):
                    return True
                if k == "plus":
                    return ev(a[1])
                return False
            changed = True
            while changed:
                changed = False
                for r, a in self.rules.items():
                    v = ev(a)
                    if v != null[r]:
                        null[r] = v
                        changed = True
            self._null = null
        return self._null.get(name, False)

    def terminal(self, ast):
        if ast[0] == "term":
            return docgrammar.terminal_kinds(ast[1])
        if ast[1] == "BANGOP":
            return self.bang
        if ast[1] == "CONDOP":
            return self.cond
        return docgrammar.LEXICAL.get(ast[1])

    def region_nfa(self, kind, shared):
        delta = {}

        def new():
            self.n += 1
            return ("d", self.n)

        def add(a, sym, b):
            delta.setdefault(a, []).append((sym, b))

        def build(ast, s, e, stack):
            k = ast[0]
            if k in ("term", "lex"):
                kinds = self.terminal(ast)
                if kinds is None:
                    self.problems.append("rule %s: unknown terminal %r" % (kind, ast[1]))
                    return
                for x in kinds:
                    add(s, x, e)
            elif k == "nt":
                name = self.resolve(ast[1])
                if name is None:
                    self.problems.append("rule %s: undefined nonterminal %s" % (kind, ast[1]))
                    return
                if name in shared:
                    add(s, ("K", name), e)
                    if self.nullable(name):
                        add(s, None, e)
                    return
                if name in stack:
                    self.problems.append("rule %s: documented recursion through %s does not pass a node kind" % (kind, name))
                    return
                build(self.rules[name], s, e, stack + (name,))
            elif k == "seq":
                cur = s
                for i, x in enumerate(ast[1]):
                    nxt = e if i == len(ast[1]) - 1 else new()
                    build(x, cur, nxt, stack)
                    cur = nxt
                if not ast[1]:
                    add(s, None, e)
            elif k == "alt":
                for x in ast[1]:
                    build(x, s, e, stack)
            elif k == "opt":
                add(s, None, e)
                build(ast[1], s, e, stack)
            elif k == "star":
                m = new()
                add(s, None, m)
                add(m, None, e)
                build(ast[1], m, m, stack)
            elif k == "plus":
                m = new()
                build(ast[1], s, m, stack)
                add(m, None, e)
                build(ast[1], m, m, stack)
        s, e = new(), new()
        build(self.rules[kind], s, e, (kind,))
        return {s}, delta, {e}


ROOT = "SourceFile"
CLOSERS = ("RSquare", "RBrace", "RParen", "Greater")


def with_trailing_separator(d, sep="Comma"):
    """L ∪ { u , c v | u c v ∈ L, c a closing bracket token, u ends inside a bracketed list element }: the property
    allows a trailing separator in bracketed lists. Applied only where the list can already hold a separator: the
    state before the closer must be reachable by a path that contains the separator or can take one (i.e. the
    state is a list-element boundary), approximated as: any state with an outgoing closer that is not also the
    state right after the opening bracket."""
    starts, delta, accepts = d.as_nfa("t")
    openers = {"LSquare", "LBrace", "LParen", "Less"}
    after_open = {b for (a, s), b in d.trans.items() if s in openers}
    n = 0
    for (a, s), b in d.trans.items():
        if s in CLOSERS and not (a in after_open and all(t in after_open for (x, ss), t in d.trans.items() if t == a)):
            n += 1
            mid = ("ts", n)
            delta.setdefault(("t", a), []).append((sep, mid))
            delta.setdefault(mid, []).append((s, ("t", b)))
    return fa.minimize(fa.determinize(starts, delta, accepts))


ANY = frozenset(["<any>"])


class Resolved:
    def __init__(self, starts, delta, accepts):
        self.starts, self.delta, self.accepts = starts, delta, accepts
        self._dfa = {}

    def dfa(self, accepts=None):
        key = None if accepts is None else frozenset(accepts)
        if key not in self._dfa:
            self._dfa[key] = fa.minimize(fa.determinize(self.starts, self.delta,
                                                        self.accepts if accepts is None else set(accepts)))
        return self._dfa[key]

    def firsts(self):
        d = self.dfa()
        return {(sy[1] if isinstance(sy, tuple) else sy) for (sy, _) in d.out(d.start)}

    def ends(self, eb):
        """tokens the parse of this node can stop before (ANY when it can stop right after consuming a token)"""
        live = self._live()
        out = set()
        for (q, pend) in self.accepts:
            if (q, pend) not in live:
                continue
            if pend is None:
                return ANY
            if isinstance(pend, str):
                out.add(pend)
            else:
                e = eb.get((pend[1], pend[2]), ANY)
                if e is ANY:
                    return ANY
                out |= e
        return frozenset(out)

    def _live(self):
        seen = set(self.starts)
        st = list(self.starts)
        while st:
            x = st.pop()
            for (_, y) in self.delta.get(x, ()):
                if y not in seen:
                    seen.add(y)
                    st.append(y)
        return seen


def compatible(pend, e, eb):
    if pend is None or pend == e:
        return True
    if isinstance(pend, tuple):
        s = eb.get((pend[1], pend[2]), ANY)
        return s is ANY or e in s
    return False


def union_dfa(ds):
    starts, delta, accepts = set(), {}, set()
    for i, d in enumerate(ds):
        s, dl, a = d.as_nfa(("v", i))
        starts |= s
        accepts |= a
        delta.update(dl)
    return fa.minimize(fa.determinize(starts, delta, accepts))


def group(diffs):
    """one entry per (prefix, offending token) / (prefix, offending child kind with the set of its first tokens)"""
    out = {}
    for (w, sy) in diffs:
        if isinstance(sy, tuple):
            out.setdefault((w, sy[0]), set()).add(sy[1])
        else:
            out[(w, sy)] = None
    res = []
    for (w, sy), fs in out.items():
        res.append((w, sy if fs is None else (sy, frozenset(fs))))
    return sorted(res, key=lambda z: (len(z[0]), str(z)))


class Comparison:
    def __init__(self, prog, repo=REPO):
        t0 = time.time()
        self.model = load_model(prog)
        self.rules, self.sources = docgrammar.load(repo)
        self.kinds = self.model.node_kinds()
        self.doc = Doc(self.rules, self.model.bang, self.model.cond, self.kinds)
        self.shared = {k for k in self.kinds if k in self.rules}
        self.code_only = self.kinds - self.shared
        self.problems = []
        self.code_states = {}
        raw = {}
        eofc = {}
        for k in sorted(self.kinds):
            for vi, var in enumerate(self.model.variants.get(k, ())):
                s, d, a, pr, ec = grammar_lang.code_nfa(self.model, k, var)
                for x in pr:
                    self.problems.append("code %s: %s" % (k, x))
                self.code_states[(k, vi)] = len(d)
                raw[(k, vi)] = (s, d)
                eofc[(k, vi)] = ec
        # node instances that may end exactly at the end of the input on an error-free parse
        self.eof_ok = {kv for kv in raw if kv[0] == ROOT}
        changed = True
        while changed:
            changed = False
            for kv in list(self.eof_ok):
                for c in eofc.get(kv, ()):
                    if c not in self.eof_ok:
                        self.eof_ok.add(c)
                        changed = True
        self.code_region = {}
        for kv, (s, d) in raw.items():
            acc = {("ACC",)} | ({("ACC", "eof")} if kv in self.eof_ok else set())
            self.code_region[kv] = fa.minimize(fa.determinize(s, d, acc)).without_empty_word()
        self.doc_region = {}
        for k in sorted(self.shared):
            s, d, a = self.doc.region_nfa(k, self.shared)
            self.doc_region[k] = fa.minimize(fa.determinize(s, d, a)).without_empty_word()
        self.problems += self.doc.problems
        self.wall = time.time() - t0

    # -- expansion ------------------------------------------------------------------------------
    def _graph(self):
        if getattr(self, "_desc", None) is not None:
            return
        ch = {k: set() for k in self.kinds}
        for (k, vi), d in self.code_region.items():
            for x in d.symbols():
                if isinstance(x, tuple) and x[0] in self.kinds:
                    ch[k].add(x[0])
        for k, d in self.doc_region.items():
            for x in d.symbols():
                if isinstance(x, tuple) and x[0] == "K":
                    ch[k].add(x[1])
        self.children = ch
        desc = {}
        for k in self.kinds:
            seen = set()
            st = [k]
            while st:
                x = st.pop()
                for y in ch.get(x, ()):
                    if y not in seen:
                        seen.add(y)
                        st.append(y)
            desc[k] = frozenset(seen)
        self._desc = desc
        self._rawc, self._resc, self._diffc = {}, {}, {}
        toks = set()
        for d in list(self.code_region.values()) + list(self.doc_region.values()):
            for x in d.symbols():
                if isinstance(x, str):
                    toks.add(x)
        self.tokens = frozenset(toks)
        anyt = set(toks)
        for d in self.code_region.values():
            for x in d.symbols():
                if isinstance(x, tuple) and x[0] == "^":
                    anyt.add(x[1])
        self.anytokens = frozenset(anyt)

    def raw(self, side, sym, T, stack=()):
        """region of sym (code: (kind, variant); doc: kind) over tokens, ('^',k) next-token assertions and
        ('N',kind) for opaque children; children whose kind is in T are replaced by their own raw language.
        None if that recursion does not end."""
        kind = sym[0] if side == "code" else sym
        key = (side, sym, T & self._desc[kind])
        if key in self._rawc:
            return self._rawc[key]
        if (side, sym) in stack:
            return None
        region = self.code_region.get(sym) if side == "code" else self.doc_region.get(sym)
        if region is None:
            return None
        bad = []

        def lang_of(s):
            if side == "code":
                if not (isinstance(s, tuple) and s[0] in self.kinds):
                    return None
                k = s[0]
            else:
                if not (isinstance(s, tuple) and s[0] == "K"):
                    return None
                k = s[1]
            if k not in T:
                return fa.DFA(0, {(0, ("N", k, s[1] if side == "code" else None)): 1}, {1}, 2)
            sub = self.raw(side, s if side == "code" else k, T, stack + ((side, sym),))
            if sub is None:
                bad.append(s)
                return fa.DFA(0, {}, set(), 1)
            return sub
        starts, delta, accepts = fa.substitute(region, lang_of)
        d = None if bad else fa.minimize(fa.determinize(starts, delta, accepts))
        if not stack or d is not None:
            self._rawc[key] = d
        return d

    def resolve(self, raw, first, eb, tag_kind=None):
        """Apply the next-token assertions: drop words in which an asserted token is not the next one. An opaque
        child becomes (kind, first token) and constrains the token after it to those its parse can stop before.
        -> Resolved(nfa, accepting (state, pending assertion) pairs)"""
        ms = sorted({x for x in raw.symbols() if isinstance(x, tuple) and x[0] == "N"}, key=str)
        key = (id(raw), tag_kind, tuple((x, frozenset(first.get(x[1], ())), frozenset(eb.get((x[1], x[2]), ANY))) for x in ms))
        if key in self._resc:
            return self._resc[key][1]

        def ok(pend, t):
            if pend is None or pend == t:
                return True
            if isinstance(pend, tuple):
                return t in eb.get((pend[1], pend[2]), ANY) or eb.get((pend[1], pend[2]), ANY) is ANY
            return False
        starts = {(raw.start, None)}
        delta = {}
        accepts = set()
        seen = set(starts)
        st = list(starts)
        while st:
            (q, pend) = st.pop()
            if q in raw.acc:
                accepts.add((q, pend))
            for (sym, q2) in raw.out(q):
                outs = []
                if isinstance(sym, tuple) and sym[0] == "^":
                    if ok(pend, sym[1]):
                        outs.append((None, (q2, sym[1])))
                elif isinstance(sym, tuple) and sym[0] == "N":
                    fs = first.get(sym[1], ())
                    for f in ([pend] if isinstance(pend, str) else sorted(fs)):
                        if f in fs and ok(pend, f):
                            o = (sym[1], f, sym[2]) if sym[1] == tag_kind else (sym[1], f)
                            outs.append((o, (q2, ("eb", sym[1], sym[2]))))
                else:
                    if ok(pend, sym):
                        outs.append((sym, (q2, None)))
                for (o, n) in outs:
                    delta.setdefault((q, pend), []).append((o, n))
                    if n not in seen:
                        seen.add(n)
                        st.append(n)
        r = Resolved(starts, delta, accepts)
        self._resc[key] = (raw, r)       # keeps raw alive so that id() stays unique
        return r

    def languages(self, C):
        """-> {kind: {'code': DFA, 'doc': DFA, ...}} for kind in C, None when C leaves a cycle uncut"""
        self._graph()
        T = frozenset(self.kinds - set(C))
        out = {k: {} for k in C}
        self.first, self.eb, self.resolved = {}, {}, {}
        for side in ("code", "doc"):
            units = [(k, vi) for k in C for vi in range(len(self.model.variants.get(k, ())))] if side == "code" \
                else [(k, None) for k in C]
            raws = {}
            for u in units:
                raws[u] = self.raw(side, u if side == "code" else u[0], T)
                if raws[u] is None:
                    return None
            # first-token sets of the opaque kinds and the tokens an opaque child's parse can stop before:
            # greatest fixpoint, starting from every token
            first = {k: set(self.tokens) for k in C}
            eb = {u: ANY for u in units}
            for _ in range(60):
                res = {u: self.resolve(raws[u], first, eb) for u in units}
                nf = {k: set() for k in C}
                neb = {}
                for u, r in res.items():
                    nf[u[0]] |= r.firsts()
                    neb[u] = r.ends(eb)
                if nf == first and neb == eb:
                    break
                first, eb = nf, neb
            self.first[side], self.eb[side], self.resolved[side] = first, eb, res
            dfas = {}
            for k in C:
                rs = [res[u] for u in units if u[0] == k]
                dfas[k] = rs[0].dfa() if len(rs) == 1 else union_dfa([r.dfa() for r in rs])
            self.raws = getattr(self, "raws", {})
            self.raws[side] = raws
            self.units_of = getattr(self, "units_of", {})
            self.units_of[side] = units
            # unit words: a token that alone is a whole K may stand where (K, token) stands, so that a documented
            # `Value Integer` and a parsed `Value Value` are compared on tokens
            unit = {k: set() for k in C}
            changed = True
            while changed:
                changed = False
                for k, d in dfas.items():
                    for (sy, q) in d.out(d.start):
                        if q in d.acc:
                            t = sy if isinstance(sy, str) else (sy[1] if sy[1] in unit.get(sy[0], ()) else None)
                            if t is not None and t not in unit[k]:
                                unit[k].add(t)
                                changed = True
            self.unit = getattr(self, "unit", {})
            self.unit[side] = unit
            for k in C:
                out[k][side], out[k][side + "+unit"] = self._post(side, dfas[k])
        return out

    def _post(self, side, d):
        unit = self.unit[side]
        extra = [((a, sy), b) for (a, sy), b in d.trans.items()
                 if isinstance(sy, tuple) and sy[1] in unit.get(sy[0], ())]
        plain = d.without_empty_word()
        if not extra:
            return plain, plain
        starts, delta, accepts = d.as_nfa("u")
        for ((a, sy), b) in extra:
            delta.setdefault(("u", a), []).append((sy[1], ("u", b)))
        return plain, fa.minimize(fa.determinize(starts, delta, accepts)).without_empty_word()

    def context_dependence(self, C):
        """For every compared kind k and every opaque child kind x in it: S = k's language with every x replaced,
        context-free, by x's own language (what a grammar, and the comparison above, assumes) against A1 = k's
        language with x's region written out inside k's automaton, so that the parser's next-token assertions
        cross the boundary (what the parser does). A word of S that is not in A1 is a phrase the parser accepts as
        an x but rejects as the x of this k because of what follows it.
        -> list of (k, x, prefix, offending symbol), number of comparisons"""
        found = []
        n = 0
        first, eb = self.first["code"], self.eb["code"]
        units = self.units_of["code"]
        raws = self.raws["code"]
        for k in sorted(C):
            kunits = [u for u in units if u[0] == k]
            xs = set()
            for u in kunits:
                xs |= {sy[1] for sy in raws[u].symbols() if isinstance(sy, tuple) and sy[0] == "N"}
            for x in sorted(xs):
                if x == k:
                    continue
                a1, s0 = [], []
                for u in kunits:
                    raw = raws[u]

                    def lang_raw(sy):
                        if isinstance(sy, tuple) and sy[0] == "N" and sy[1] == x:
                            return raws[(x, sy[2])]
                        return None
                    r1 = fa.minimize(fa.determinize(*fa.substitute(raw, lang_raw)))
                    a1.append(self.resolve(r1, first, eb).dfa())
                    tagged = self.resolve(raw, first, eb, tag_kind=x).dfa()

                    def lang_res(sy):
                        if isinstance(sy, tuple) and len(sy) == 3 and sy[0] == x:
                            d = self.resolved["code"][(x, sy[2])].dfa().without_empty_word()
                            # words of x starting with token sy[1]
                            tr = {(a, s2): b for (a, s2), b in d.trans.items()
                                  if a != d.start or (s2 == sy[1] or (isinstance(s2, tuple) and s2[1] == sy[1]))}
                            return fa.DFA(d.start, tr, set(d.acc), d.n)
                        return None
                    s0.append(fa.minimize(fa.determinize(*fa.substitute(tagged, lang_res))))
                A1 = (a1[0] if len(a1) == 1 else union_dfa(a1)).without_empty_word()
                S = (s0[0] if len(s0) == 1 else union_dfa(s0)).without_empty_word()
                n += 1
                for (w, sy) in group(fa.differences(S, A1, limit=20)):
                    found.append((k, x, w, sy))
        return found, n

    def follow_dependence(self):
        """For every opaque node instance of the last languages() call: words that the parser accepts as that node
        before one following token but not before another one it can also stop before. Context-free reasoning
        (and the documented grammar) cannot express such a dependence."""
        found = []
        eb = self.eb["code"]
        for u, r in sorted(self.resolved["code"].items()):
            ends = eb.get(u, ANY)
            if ends is ANY or len(ends) < 2:
                toks = sorted(self.anytokens) if ends is ANY else sorted(ends)
            else:
                toks = sorted(ends)
            classes = {}
            for e in toks:
                acc = frozenset(a for a in r.accepts if compatible(a[1], e, eb))
                classes.setdefault(acc, []).append(e)
            if len(classes) < 2:
                continue
            items = sorted(classes.items(), key=lambda z: (-len(z[1]), z[1]))
            base_acc, base_toks = items[0]
            B = r.dfa(base_acc).without_empty_word()
            for acc, es in items[1:]:
                A = r.dfa(acc).without_empty_word()
                if A.is_empty():
                    continue
                for (X, Y, a, b) in ((B, A, base_toks, es), (A, B, es, base_toks)):
                    d = fa.differences(X, Y, limit=3)
                    if d:
                        w, sy = d[0]
                        found.append((u, tuple(a), tuple(b), fa.complete_word(X, w, sy)))
        return found

    def compare_all(self, C):
        langs = self.languages(C)
        if langs is None:
            return None
        res = {}
        for k, v in langs.items():
            A, B = v["code"], v["doc"]
            Au, Bu = v["code+unit"], v["doc+unit"]
            key = (id(A), id(B), id(Au), id(Bu))
            if key not in self._diffc:
                self._diffc[key] = ((A, B, Au, Bu), None, group(fa.differences(A, with_trailing_separator(Bu))),
                                    group(fa.differences(B, Au)))
            _, _, cd, dc = self._diffc[key]
            res[k] = (cd, dc, A, B)
        return res

    def solve(self, hint=()):
        """Choose the opaque set C by hill climbing on the number of frontier differences: any C that contains the
        root and cuts every cycle decides equality soundly (zero differences under C <=> nothing to report);
        making a kind transparent only moves where a difference shows. A kind is made transparent when that
        strictly lowers the number of differences (node extents that differ from the documented rule's extent,
        documented alternatives that the parser represents with another node kind). `hint` (kinds to try first)
        only shortens the search."""
        self._graph()
        C = set(self.shared)
        log = []

        def count(r):
            return sum(len(v[0]) + len(v[1]) for v in r.values())
        res = self.compare_all(C)
        self.evaluations = 1
        for k in hint:
            if k in C and k != ROOT:
                r2 = self.compare_all(C - {k})
                self.evaluations += 1
                if r2 is not None and count(r2) < count(res):
                    log.append((k, count(res), count(r2), "hint"))
                    C, res = C - {k}, r2
        while True:
            total = count(res)
            if total == 0:
                break
            cand = {}
            for k, v in res.items():
                if v[0] or v[1]:
                    cand[k] = cand.get(k, 0) + len(v[0]) + len(v[1])
                    for (w, sy) in v[0] + v[1]:
                        for x in tuple(w) + (sy,):
                            if isinstance(x, tuple) and x[0] in C:
                                cand[x[0]] = cand.get(x[0], 0) + 1
            adopted = False
            for k in sorted(cand, key=lambda z: (-cand[z], z)):
                if k == ROOT or k not in C:
                    continue
                r2 = self.compare_all(C - {k})
                self.evaluations += 1
                if r2 is None:
                    continue                      # a cycle would lose its cut point
                t2 = count(r2)
                if t2 < count(res):
                    log.append((k, count(res), t2, "search"))
                    C, res = C - {k}, r2
                    adopted = True
            if not adopted:
                break
        return C, res, log
