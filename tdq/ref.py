"""Reference tables transcribed from the LLVM TableGen Programmer's Reference (no network in
this sandbox: written from the published grammar; rows I could not vouch for are in UNSURE
and are reported as information only, never as violations)."""

# reserved words of the TableGen language -> token kind (variant of syntax::token_kind::TokenKind)
KEYWORDS = {
    "assert": "Assert", "bit": "Bit", "bits": "Bits", "class": "Class", "code": "Code",
    "dag": "Dag", "def": "Def", "defm": "Defm", "defset": "Defset", "defvar": "Defvar",
    "dump": "Dump", "else": "ElseKw", "false": "FalseVal", "field": "Field",
    "foreach": "Foreach", "if": "If", "in": "In", "include": "Include", "int": "Int",
    "let": "Let", "list": "List", "multiclass": "MultiClass", "string": "String",
    "then": "Then", "true": "TrueVal",
}

# BangOperator / CondOperator spellings (without '!') -> token kind
BANG_OPERATORS = {
    "add": "XAdd", "and": "XAnd", "cast": "XCast", "con": "XCon", "cond": "XCond", "dag": "XDag",
    "div": "XDiv", "empty": "XEmpty", "eq": "XEq", "exists": "XExists", "filter": "XFilter",
    "find": "XFind", "foldl": "XFoldl", "foreach": "XForEach", "ge": "XGe",
    "getdagarg": "XGetDagArg", "getdagname": "XGetDagName", "getdagop": "XGetDagOp", "gt": "XGt",
    "head": "XHead", "if": "XIf", "initialized": "XInitialized", "interleave": "XInterleave",
    "isa": "XIsA", "le": "XLe", "listconcat": "XListConcat", "listflatten": "XListFlatten",
    "listremove": "XListRemove", "listsplat": "XListSplat", "logtwo": "XLog2", "lt": "XLt",
    "mul": "XMul", "ne": "XNe", "not": "XNot", "or": "XOr", "range": "XRange", "repr": "XRepr",
    "setdagarg": "XSetDagArg", "setdagname": "XSetDagName", "setdagop": "XSetDagOp",
    "shl": "XShl", "size": "XSize", "sra": "XSra", "srl": "XSrl", "strconcat": "XStrConcat",
    "sub": "XSub", "subst": "XSubst", "substr": "XSubstr", "tail": "XTail",
    "tolower": "XToLower", "toupper": "XToUpper", "xor": "XXor",
}
# operators of newer LLVM releases that this project may legitimately lack
UNSURE_BANG = {"instances", "match"}

# punctuation of the reference -> token kind
PUNCT = {
    "-": "Minus", "+": "Plus", "[": "LSquare", "]": "RSquare", "{": "LBrace", "}": "RBrace",
    "(": "LParen", ")": "RParen", "<": "Less", ">": "Greater", ":": "Colon", ";": "Semi",
    ",": "Comma", ".": "Dot", "=": "Equal", "?": "Question", "#": "Paste", "...": "DotDotDot",
}

PREPROCESSOR = {"ifdef": "Ifdef", "ifndef": "Ifndef", "else": "Else", "endif": "Endif",
                "define": "Define"}

# character predicates (resolved callee path of the function item handed to the scanner) ->
# a Python predicate over single characters
CHAR_PREDICATES = {
    "std::char::methods::<impl char>::is_ascii_alphabetic": lambda c: c.isascii() and c.isalpha(),
    "std::char::methods::<impl char>::is_ascii_alphanumeric": lambda c: c.isascii() and c.isalnum(),
    "std::char::methods::<impl char>::is_alphabetic": lambda c: c.isalpha(),
    "std::char::methods::<impl char>::is_alphanumeric": lambda c: c.isalnum(),
    "std::char::methods::<impl char>::is_ascii_digit": lambda c: c in "0123456789",
    "std::char::methods::<impl char>::is_ascii_lowercase": lambda c: c.isascii() and c.islower(),
    "std::char::methods::<impl char>::is_whitespace": lambda c: c.isspace() or c in "\x85\u200e\u200f\u2028\u2029" and c not in "\u200e\u200f",
    "std::char::methods::<impl char>::is_ascii_whitespace": lambda c: c in " \t\n\x0c\r",
    "std::char::methods::<impl char>::is_ascii_hexdigit": lambda c: c in "0123456789abcdefABCDEF",
}

# TableGen bang operators: arity (min, max|None) and whether a <type> annotation is required
# ('req'), forbidden ('no') or optional ('opt').  From the Programmer's Reference, appendix A.
BANG_ARITY = {
    "XAdd": (2, None, "no"), "XAnd": (2, None, "no"), "XMul": (2, None, "no"),
    "XOr": (2, None, "no"), "XXor": (2, None, "no"),
    "XDiv": (2, 2, "no"), "XSub": (2, 2, "no"), "XSrl": (2, 2, "no"), "XSra": (2, 2, "no"),
    "XShl": (2, 2, "no"),
    "XCast": (1, 1, "req"), "XCon": (2, None, "no"), "XDag": (3, 3, "no"),
    "XEmpty": (1, 1, "no"), "XEq": (2, 2, "no"), "XNe": (2, 2, "no"),
    "XExists": (1, 1, "req"), "XFilter": (3, 3, "no"), "XFind": (2, 3, "no"),
    "XFoldl": (5, 5, "no"), "XForEach": (3, 3, "no"),
    "XGe": (2, 2, "no"), "XGt": (2, 2, "no"), "XLe": (2, 2, "no"), "XLt": (2, 2, "no"),
    "XGetDagArg": (2, 2, "req"), "XGetDagName": (2, 2, "no"), "XGetDagOp": (1, 1, "opt"),
    "XHead": (1, 1, "no"), "XIf": (3, 3, "no"), "XInitialized": (1, 1, "no"),
    "XInterleave": (2, 2, "no"), "XIsA": (1, 1, "req"),
    "XListConcat": (2, None, "no"), "XListFlatten": (1, 1, "no"), "XListRemove": (2, 2, "no"),
    "XListSplat": (2, 2, "no"), "XLog2": (1, 1, "no"), "XNot": (1, 1, "no"),
    "XRange": (1, 3, "no"), "XRepr": (1, 1, "no"),
    "XSetDagArg": (3, 3, "no"), "XSetDagName": (3, 3, "no"), "XSetDagOp": (2, 2, "no"),
    "XSize": (1, 1, "no"), "XStrConcat": (2, None, "no"), "XSubst": (3, 3, "no"),
    "XSubstr": (2, 3, "no"), "XTail": (1, 1, "no"), "XToLower": (1, 1, "no"),
    "XToUpper": (1, 1, "no"),
}
# rows where my memory of the reference is not firm: compared, but mismatches are info only
UNSURE_ARITY = {"XListConcat", "XStrConcat", "XRange", "XCon", "XInterleave", "XGetDagOp",
                "XSetDagOp", "XListSplat"}
