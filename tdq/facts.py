"""Fact loading: builds (or reuses) the MIR fact files for the current working tree of the
repository and exposes them as a Program of Body objects.

Nothing in here executes repository code: `bin/build-facts` runs `cargo +nightly check`
with the mirfacts driver as rustc wrapper (type checking + MIR construction only).
"""
import fcntl
import hashlib
import json
import os
import shutil
import subprocess
import sys
import time

VERIF = os.path.dirname(os.path.dirname(os.path.abspath(__file__)))
REPO = os.environ.get("TDQ_REPO", "/repo")
CACHE = os.path.join(VERIF, ".cache")

FACT_FILES = ["syntax.rlib", "ide.rlib", "lsp.rlib", "lsp.executable", "dump.executable",
              "tablegen_parse.executable"]
REQUIRED = ["syntax.rlib", "ide.rlib", "lsp.rlib"]


def _tree_files(repo):
    out = []
    for root, dirs, files in os.walk(repo):
        dirs[:] = [d for d in dirs if d not in ("target", ".git", "node_modules", "vscode", "images")]
        for f in files:
            if f.endswith(".rs") or f in ("Cargo.toml", "Cargo.lock", "syntax.md", "config.toml",
                                           "rust-toolchain.toml", "rust-toolchain"):
                out.append(os.path.join(root, f))
    return sorted(out)


def tree_hash(repo=REPO):
    h = hashlib.sha256()
    for p in _tree_files(repo):
        h.update(os.path.relpath(p, repo).encode())
        h.update(b"\0")
        with open(p, "rb") as fh:
            h.update(fh.read())
        h.update(b"\0")
    drv = os.path.join(VERIF, "engines", "mirfacts", "src", "main.rs")
    with open(drv, "rb") as fh:
        h.update(fh.read())
    return h.hexdigest()[:24]


def ensure_facts(repo=REPO):
    """Returns (facts_dir, info) building the facts if they are not cached for this tree."""
    os.makedirs(CACHE, exist_ok=True)
    key = tree_hash(repo)
    d = os.path.join(CACHE, key)
    lock = open(os.path.join(CACHE, ".lock"), "w")
    fcntl.flock(lock, fcntl.LOCK_EX)
    try:
        ok = all(os.path.exists(os.path.join(d, f + ".json")) for f in REQUIRED) and \
            os.path.exists(os.path.join(d, "DONE"))
        if ok:
            try:
                os.utime(d, None)       # mark as recently used so that a concurrent build does not evict it
            except OSError:
                pass
        built = False
        t0 = time.time()
        if not ok:
            # keep the cache small: drop older trees
            olds = [os.path.join(CACHE, o) for o in os.listdir(CACHE)
                    if os.path.isdir(os.path.join(CACHE, o)) and o != key]
            olds.sort(key=lambda p: os.path.getmtime(p), reverse=True)
            for p in olds[int(os.environ.get("TDQ_CACHE_KEEP", "80")):]:
                shutil.rmtree(p, ignore_errors=True)
            tmp = d + ".tmp"
            shutil.rmtree(tmp, ignore_errors=True)
            os.makedirs(tmp)
            r = subprocess.run([os.path.join(VERIF, "bin", "build-facts"), repo, tmp],
                               stdout=subprocess.PIPE, stderr=subprocess.PIPE, text=True)
            if r.returncode != 0:
                sys.stderr.write(r.stderr[-6000:])
                shutil.rmtree(tmp, ignore_errors=True)
                raise FactBuildError("fact build failed (does the tree compile?)\n" + r.stderr[-3000:])
            open(os.path.join(tmp, "DONE"), "w").write(key)
            shutil.rmtree(d, ignore_errors=True)
            os.rename(tmp, d)
            built = True
        return d, {"tree_hash": key, "built_now": built, "build_s": round(time.time() - t0, 1)}
    finally:
        fcntl.flock(lock, fcntl.LOCK_UN)
        lock.close()


class FactBuildError(Exception):
    pass


class Body:
    __slots__ = ("path", "crate", "raw", "blocks", "locals", "loc", "kind", "vis", "impl_self",
                 "impl_trait", "parent", "argc", "_defs", "_succ", "_pred", "expn", "generics", "upvars")

    def __init__(self, raw, crate):
        self.raw = raw
        self.crate = crate
        self.path = raw["path"]
        self.blocks = raw["blocks"]
        self.locals = raw["locals"]
        self.loc = raw["loc"]
        self.kind = raw["defkind"]
        self.vis = raw.get("vis")
        self.impl_self = raw.get("impl_self")
        self.impl_trait = raw.get("impl_trait")
        self.parent = raw.get("parent")
        self.argc = raw["argc"]
        self.expn = raw.get("expn", False)
        self.generics = raw.get("generics", [])
        self.upvars = raw.get("upvars")
        self._defs = None
        self._succ = None
        self._pred = None

    # ---------------------------------------------------------------- CFG
    def term(self, b):
        return self.blocks[b]["term"]

    def is_cleanup(self, b):
        return self.blocks[b]["cleanup"]

    def succ(self, b):
        """Normal (non-unwind) successors of block b."""
        if self._succ is None:
            self._succ = [None] * len(self.blocks)
        s = self._succ[b]
        if s is None:
            t = self.blocks[b]["term"]
            k = t["k"]
            if k in ("goto", "drop", "assert"):
                s = [t["t"]]
            elif k == "call":
                s = [t["t"]] if t["t"] is not None else []
            elif k == "switch":
                s = [a[1] for a in t["arms"]] + [t["else"]]
                seen = []
                for x in s:
                    if x not in seen:
                        seen.append(x)
                s = seen
            else:
                s = []
            self._succ[b] = s
        return s

    def pred(self, b):
        if self._pred is None:
            self._pred = [[] for _ in self.blocks]
            for i in range(len(self.blocks)):
                if self.is_cleanup(i):
                    continue
                for s in self.succ(i):
                    self._pred[s].append(i)
        return self._pred[b]

    def reachable(self, start=0, avoid=()):
        seen = set()
        st = [start]
        while st:
            b = st.pop()
            if b in seen or b in avoid:
                continue
            seen.add(b)
            st.extend(self.succ(b))
        return seen

    def returns(self):
        return [i for i, bb in enumerate(self.blocks) if bb["term"]["k"] == "return" and not bb["cleanup"]]

    def calls(self):
        """(block index, terminator) of every call in non-cleanup blocks."""
        for i, bb in enumerate(self.blocks):
            if bb["cleanup"]:
                continue
            t = bb["term"]
            if t["k"] == "call":
                yield i, t

    @staticmethod
    def callee(t):
        f = t["f"]
        return f.get("fn")

    def line(self, b):
        return self.blocks[b]["term"].get("ln")

    def where(self, b=None):
        f = self.loc.rsplit(":", 1)[0]
        if b is None:
            return self.loc
        return "%s:%s" % (f, self.line(b))

    # ---------------------------------------------------------------- def-use
    def defs(self):
        """local -> list of ('stmt', bb, idx, rvalue) | ('call', bb, term)  (whole-local writes)."""
        if self._defs is None:
            d = {}
            for i, bb in enumerate(self.blocks):
                for j, s in enumerate(bb["s"]):
                    if "a" in s and not s["a"]["p"]:
                        d.setdefault(s["a"]["l"], []).append(("stmt", i, j, s["rv"]))
                t = bb["term"]
                if t["k"] == "call" and not t["dest"]["p"]:
                    d.setdefault(t["dest"]["l"], []).append(("call", i, t))
            self._defs = d
        return self._defs

    def single_def(self, local):
        ds = self.defs().get(local, [])
        return ds[0] if len(ds) == 1 else None

    def local_name(self, l):
        return self.locals[l].get("n")

    def local_ty(self, l):
        return self.locals[l]["t"]


def op_place(op):
    """place dict of a copy/move operand, else None"""
    if op is None:
        return None
    return op.get("copy") or op.get("move")


def op_local(op):
    p = op_place(op)
    if p is not None and not p["p"]:
        return p["l"]
    return None


def op_const(op):
    return op.get("const") if op else None


class Program:
    def __init__(self, facts_dir, info):
        self.info = info
        self.dir = facts_dir
        self.bodies = {}
        self.consts = {}
        self.impls = []
        self.traits = {}
        self.adts = {}
        self.crates = {}
        raws = {}
        for f in FACT_FILES:
            p = os.path.join(facts_dir, f + ".json")
            if not os.path.exists(p):
                continue
            raws[f] = json.load(open(p))
        # functions that were only renamed are given their reference names back (tdq/renames.py)
        from . import renames
        self.renames, self.rename_notes = renames.find_renames(raws)
        if self.renames:
            raws = {f: renames.rewrite(raw, self.renames) for f, raw in raws.items()}
        fmap, fnotes = renames.field_renames(raws)
        if fmap:
            raws = {f: renames.rewrite_fields(raw, fmap) for f, raw in raws.items()}
            self.rename_notes = list(self.rename_notes) + fnotes
        # helper functions that do not exist in the reference tree are inlined into their callers (tdq/inline.py)
        try:
            from . import inline
            backup = None
            notes = inline.inline_new_functions(raws) if os.environ.get("TDQ_NO_INLINE") != "1" else []
            self.rename_notes = list(self.rename_notes) + notes
        except Exception as e:      # never let the normalisation itself break a run
            self.rename_notes = list(self.rename_notes) + ["inlining of new helper functions failed (%r); analysed as written" % (e,)]
        try:
            from . import normalize
            n_eq = normalize.enum_eq_to_switch(raws, renames.CRATES)
            if n_eq:
                self.rename_notes = list(self.rename_notes) + ["%d `==` comparisons with a token-kind constant read as match arms" % n_eq]
        except Exception as e:
            self.rename_notes = list(self.rename_notes) + ["comparison normalisation failed (%r); analysed as written" % (e,)]
        for f in FACT_FILES:
            if f not in raws:
                continue
            raw = raws[f]
            self.crates[f] = raw
            for b in raw["bodies"]:
                body = Body(b, f)
                key = body.path
                n = 1
                while key in self.bodies:
                    n += 1
                    key = "%s#%d" % (body.path, n)
                self.bodies[key] = body
            for c in raw["consts"]:
                self.consts.setdefault(c["path"], c)
            for i in raw["impls"]:
                i = dict(i)
                i["crate"] = f
                self.impls.append(i)
            for t in raw["traits"]:
                self.traits.setdefault(t["path"], t)
            for a in raw["adts"]:
                self.adts.setdefault(a["path"], a)
        self._callers = None

    # ------------------------------------------------------------ lookups
    def body(self, path):
        return self.bodies.get(path)

    def find(self, pred):
        return [b for b in self.bodies.values() if pred(b)]

    def bodies_in(self, prefix):
        return [b for p, b in self.bodies.items() if p.startswith(prefix)]

    def enum_variants(self, path):
        a = self.adts.get(path)
        if not a:
            return None
        return [v["name"] for v in a["variants"]]

    def variant_by_discr(self, path, val):
        a = self.adts.get(path)
        if not a:
            return None
        for v in a["variants"]:
            if v["discr"] == val:
                return v["name"]
        return None

    def closures_of(self, parent_path):
        return [b for b in self.bodies.values() if b.parent == parent_path]

    def impls_of_trait(self, trait):
        return [i for i in self.impls if i.get("trait") == trait]

    # ------------------------------------------------------------ call graph
    def call_sites(self, callee_pred):
        """all (body, bb, term) whose resolved callee satisfies the predicate"""
        out = []
        for b in self.bodies.values():
            for i, t in b.calls():
                c = Body.callee(t)
                if c is not None and callee_pred(c):
                    out.append((b, i, t))
        return out


_prog = None


def program():
    global _prog
    if _prog is None:
        d, info = ensure_facts(REPO)
        _prog = Program(d, info)
    return _prog
