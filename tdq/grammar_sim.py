"""C04 thorough tier: bounded token-level comparison of the two models.

code side: the recursive transition network extracted from the parser's MIR (tdq.grammar_lang edges) is simulated on
           concrete token kinds: a configuration is (context, vertex, rest of word, return stack, open nodes); one step
           takes the set of configurations reached after the previous token, fixes the current token to t, follows
           every error-free edge compatible with t and stops where t is consumed.
doc side : the documented EBNF as a recursive transition network (one Thompson NFA per rule, a stack of return
           states), stepped the same way. A derivation is any derivation: ambiguity is not resolved.
Both are explored together, breadth first over token strings up to a length bound, merged on equal (code state, doc
state) pairs. A string prefix that one side can continue and the other cannot, with a completion to a whole sentence
within the bound, is a token-level difference; unlike the per-node comparison it does not depend on the parse tree
(the same tokens accepted through another derivation are accepted)."""
from collections import deque

from . import docgrammar

ROOT_FN = "syntax::grammar::source_file"
CLOSERS = ("RSquare", "RBrace", "RParen", "Greater")


class CodeSim:
    def __init__(self, model, max_depth=60):
        self.m = model
        self.max_depth = max_depth
        roots = [c for c in model.entry if c[0] == ROOT_FN and not c[2][0]]
        if len(roots) != 1:
            raise KeyError("root context of %s not found" % ROOT_FN)
        self.root = roots[0]
        self.init = frozenset([(self.root, model.entry[self.root], (), None, (), ())])
        self._memo = {}
        toks = set()
        for adj in model.edges.values():
            for outs in adj.values():
                for (k, payload, d) in outs:
                    if k == "pword":
                        toks.add(payload[0])
        self.all = frozenset(toks - set(model.trivia))
        # group the per-token primitive edges of a vertex by what they do
        self.groups = {}
        for ctx, adj in model.edges.items():
            for v, outs in adj.items():
                g = {}
                res = []
                for (k, payload, d) in outs:
                    if k == "pword":
                        kk, word = payload
                        if kk not in self.all:
                            continue
                        norm = tuple(("t", "SELF") if (sy[0] == "t" and sy[1] == frozenset([kk])) else sy for sy in word)
                        g.setdefault((norm, d), set()).add(kk)
                    else:
                        res.append((k, payload, d))
                for (norm, d), ks in g.items():
                    res.append(("pgroup", (frozenset(ks), norm), d))
                self.groups[(ctx, v)] = res

    def expand(self, configs):
        """-> ({token: frozenset of configurations right after consuming it}, accepted at end of input)"""
        r = self._memo.get(configs)
        if r is not None:
            return r
        out = {}
        accepted = False
        seen = {}
        cut = set()
        st = [(c, self.all) for c in configs]
        while st:
            c, allowed = st.pop()
            old = seen.get(c)
            if old is not None:
                if allowed <= old:
                    continue
                allowed = allowed | old
            seen[c] = allowed
            ctx, v, rest, dst, rstack, nodes = c
            if rest:
                sym = rest[0]
                nrest = rest[1:]
                if sym[0] == "t":
                    ts = allowed if sym[1] == "SELF" else (allowed & sym[1])
                    if ts:
                        n = (ctx, v, nrest, dst, rstack, nodes)
                        if not nrest and dst is not None:
                            n = (ctx, dst, (), None, rstack, nodes)
                        for t in ts:
                            if t != "Eof":
                                out.setdefault(t, set()).add(n)
                    continue
                if sym[0] in ("open", "open_at"):
                    nodes2 = nodes + (sym[1],)
                elif sym[0] == "close":
                    nodes2 = nodes[:-1]
                else:
                    nodes2 = nodes
                if not nrest and dst is not None:
                    st.append(((ctx, dst, (), None, rstack, nodes2), allowed))
                else:
                    st.append(((ctx, v, nrest, dst, rstack, nodes2), allowed))
                continue
            if isinstance(v, tuple) and v and v[0] == "RET":
                if rstack:
                    (rctx, rdst, roc) = rstack[-1]
                    if v[1] == roc:
                        st.append(((rctx, rdst, (), None, rstack[:-1], nodes), allowed))
                elif ctx == self.root and "Eof" in allowed:
                    accepted = True
                continue
            for (k, payload, d) in self.groups.get((ctx, v), ()):
                if k == "eps":
                    st.append(((ctx, d, (), None, rstack, nodes), allowed))
                elif k == "guard":
                    a2 = allowed & payload
                    if a2:
                        st.append(((ctx, d, (), None, rstack, nodes), a2))
                elif k == "word":
                    st.append(((ctx, v, payload, d, rstack, nodes), allowed))
                elif k == "pgroup":
                    a2 = allowed & payload[0]
                    if a2:
                        if payload[1]:
                            st.append(((ctx, v, payload[1], d, rstack, nodes), a2))
                        else:
                            st.append(((ctx, d, (), None, rstack, nodes), a2))
                elif k == "call":
                    cctx, oc = payload
                    ent = self.m.entry.get(cctx)
                    if ent is not None:
                        if len(rstack) < self.max_depth:
                            st.append(((cctx, ent, (), None, rstack + ((ctx, d, oc),), nodes), allowed))
                        else:
                            cut |= allowed
        r = ({t: frozenset(v) for t, v in out.items()}, accepted, frozenset(cut))
        self._memo[configs] = r
        return r

    def step(self, configs, t):
        out, acc, _ = self.expand(configs)
        if t == "Eof":
            return frozenset(), acc
        return out.get(t, frozenset()), acc

    @staticmethod
    def open_nodes(configs):
        ks = set()
        for c in configs:
            ks |= set(c[5])
        return ks


class DocSim:
    """RTN over the documented rules; state = frozenset of (nfa state, return stack)"""

    def __init__(self, rules, bang, cond, max_depth=60):
        self.max_depth = max_depth
        self.rules = rules
        self.bang, self.cond = bang, cond
        self.n = 0
        self.delta = {}          # state -> [(label, state)]; label: None | ('t', kinds) | ('nt', rule)
        self.entry = {}
        self.exit = {}
        self.problems = []
        self.names = {}
        for r in rules:
            self._rule(r)
        self.init = frozenset([(self.entry["SourceFile"], ())])
        self._memo = {}
        self._exits = {v: k for k, v in self.exit.items()}
        self._expect = {}        # configs -> rules that wait for a terminal there
        self._via = {}           # (configs, token) -> rules whose terminal matched the token

    def _new(self, rule):
        self.n += 1
        self.names[self.n] = rule
        return self.n

    def _resolve(self, name):
        if name in self.rules:
            return name
        best = None
        for r in self.rules:
            a, b = name.lower(), r.lower()
            if abs(len(a) - len(b)) <= 2:
                from .grammar_lang import edit_distance
                d = edit_distance(a, b)
                if d <= 2 and (best is None or d < best[0]):
                    best = (d, r)
        return best[1] if best else None

    def _rule(self, rule):
        s, e = self._new(rule), self._new(rule)
        self.entry[rule], self.exit[rule] = s, e

        def add(a, lab, b):
            self.delta.setdefault(a, []).append((lab, b))

        def build(ast, s, e):
            k = ast[0]
            if k in ("term", "lex"):
                if k == "term":
                    kinds = docgrammar.terminal_kinds(ast[1])
                elif ast[1] == "BANGOP":
                    kinds = self.bang
                elif ast[1] == "CONDOP":
                    kinds = self.cond
                else:
                    kinds = docgrammar.LEXICAL.get(ast[1])
                if kinds is None:
                    self.problems.append("rule %s: unknown terminal %r" % (rule, ast[1]))
                    return
                add(s, ("t", frozenset(kinds)), e)
            elif k == "nt":
                name = self._resolve(ast[1])
                if name is None:
                    self.problems.append("rule %s: undefined nonterminal %s" % (rule, ast[1]))
                    return
                add(s, ("nt", name), e)
            elif k == "seq":
                cur = s
                for i, x in enumerate(ast[1]):
                    nxt = e if i == len(ast[1]) - 1 else self._new(rule)
                    build(x, cur, nxt)
                    cur = nxt
                if not ast[1]:
                    add(s, None, e)
            elif k == "alt":
                for x in ast[1]:
                    build(x, s, e)
            elif k == "opt":
                add(s, None, e)
                build(ast[1], s, e)
            elif k == "star":
                mid = self._new(rule)
                add(s, None, mid)
                add(mid, None, e)
                build(ast[1], mid, mid)
            elif k == "plus":
                mid = self._new(rule)
                build(ast[1], s, mid)
                add(mid, None, e)
                build(ast[1], mid, mid)
        build(self.rules[rule], s, e)

    def expand(self, configs):
        r = self._memo.get(configs)
        if r is not None:
            return r
        out = {}
        accepted = False
        cutflag = False
        seen = set()
        st = list(configs)
        exits = self._exits
        while st:
            c = st.pop()
            if c in seen:
                continue
            seen.add(c)
            q, stack = c
            if q in exits:
                if stack:
                    st.append((stack[-1], stack[:-1]))
                elif exits[q] == "SourceFile":
                    accepted = True
            for (lab, q2) in self.delta.get(q, ()):
                if lab is None:
                    st.append((q2, stack))
                elif lab[0] == "t":
                    self._expect.setdefault(configs, set()).add(self.names[q])
                    for t in lab[1]:
                        out.setdefault(t, set()).add((q2, stack))
                        self._via.setdefault((configs, t), set()).add(self.names[q])
                else:
                    if len(stack) < self.max_depth:
                        st.append((self.entry[lab[1]], stack + (q2,)))
                    else:
                        cutflag = True
        r = ({t: frozenset(v) for t, v in out.items()}, accepted, cutflag)
        self._memo[configs] = r
        return r

    def step(self, configs, t):
        out, acc, _ = self.expand(configs)
        if t == "Eof":
            return frozenset(), acc
        return out.get(t, frozenset()), acc

    def inner_rules(self, configs):
        return sorted({self.names[q] for (q, stack) in configs})

    def expecting(self, configs):
        self.expand(configs)
        return sorted(self._expect.get(configs, ()))

    def via(self, configs, t):
        self.expand(configs)
        return sorted(self._via.get((configs, t), ()))

    def open_rules(self, configs):
        ks = set()
        for (q, stack) in configs:
            ks.add(self.names[q])
            for x in stack:
                ks.add(self.names[x])
        return ks


class Explorer:
    def __init__(self, model, rules, bound, code_depth=60, doc_depth=60):
        self.code = CodeSim(model, code_depth)
        self.doc = DocSim(rules, model.bang, model.cond, doc_depth)
        self.bound = bound
        self.nodes = 0
        self.steps = 0

    def doc_expand(self, dstate):
        """dstate = (configs, configs before a just-read comma or None). A comma directly before a closing bracket is
        allowed by the property even where the documented list has no trailing separator."""
        main, before = dstate
        out, acc, cut = self.doc.expand(main)
        res = {t: (v, main if t == "Comma" else None) for t, v in out.items()}
        if before is not None:
            o2, _, c2 = self.doc.expand(before)
            cut = cut or c2
            for t in CLOSERS:
                if t in o2:
                    cur = res.get(t, (frozenset(), None))
                    res[t] = (cur[0] | o2[t], None)
        return res, acc, cut

    def complete(self, side, state, budget):
        """shortest completion (list of tokens) to an accepted sentence within `budget` more tokens, or None.
        side 'code': state = code configurations; side 'doc': state = strict documented configurations"""
        key = (side, state)
        if key in self._comp:
            return self._comp[key]
        seen = {state}
        dq = deque([(state, ())])
        res = None
        while dq:
            s, w = dq.popleft()
            out, acc, _ = self.code.expand(s) if side == "code" else self.doc.expand(s)
            if acc:
                res = list(w)
                break
            if len(w) >= budget:
                continue
            for t in sorted(out):
                n = out[t]
                if n not in seen:
                    seen.add(n)
                    dq.append((n, w + (t,)))
        self._comp[key] = res
        return res

    def run(self, limit_nodes=2000000, completion_budget=6):
        """Explore every (parser state, documented state) pair reachable within the nesting bounds.
        -> list of differences: dict(direction, prefix, token, completion, code_stack, doc_rules).
        'code-only' is decided against the documented language extended with a trailing separator before a closing
        bracket, 'doc-only' against the documented language itself."""
        self._comp = {}
        empty_l = (frozenset(), None)
        start = (self.code.init, self.doc.init, (self.doc.init, None))
        seen = {start}
        dq = deque([(start, ())])
        diffs = []
        self.truncated = False
        self.cut_nodes = 0
        while dq:
            (cs, ss, ls), w = dq.popleft()
            self.nodes += 1
            if self.nodes > limit_nodes:
                self.truncated = True
                break
            cout, cacc, ccut = self.code.expand(cs)
            sout, sacc, scut = self.doc.expand(ss) if ss else ({}, False, False)
            lout, lacc, lcut = self.doc_expand(ls) if ls[0] or ls[1] else ({}, False, False)
            if scut or lcut:
                self.cut_nodes += 1
                continue        # the documented side was cut at the nesting bound here: nothing to compare
            if cacc and not lacc:
                diffs.append({"direction": "code-only", "prefix": list(w), "token": "<end>", "completion": [],
                              "code_stack": self._stack(cs), "doc_rules": sorted(self.doc.open_rules(ls[0])),
                              "doc_inner": self.doc.inner_rules(ls[0]), "doc_expecting": self.doc.expecting(ls[0])})
            if sacc and not cacc:
                diffs.append({"direction": "doc-only", "prefix": list(w), "token": "<end>", "completion": [],
                              "code_stack": self._stack(cs), "doc_rules": sorted(self.doc.open_rules(ss)),
                              "doc_inner": self.doc.inner_rules(ss), "doc_via": ["<end>"]})
            if len(w) >= self.bound:
                continue
            for t in sorted(set(cout) | set(sout) | set(lout)):
                if t in ccut:
                    self.cut_nodes += 1
                    continue    # the parser side was cut at the nesting bound under this token
                self.steps += 1
                c2 = cout.get(t)
                s2 = sout.get(t)
                l2 = lout.get(t)
                if c2 and not (l2 and l2[0]):
                    comp = self.complete("code", c2, completion_budget)
                    if comp is not None:
                        diffs.append({"direction": "code-only", "prefix": list(w), "token": t, "completion": comp,
                                      "code_stack": self._stack(c2), "doc_rules": sorted(self.doc.open_rules(ls[0])),
                                      "doc_inner": self.doc.inner_rules(ls[0]), "doc_expecting": self.doc.expecting(ls[0])})
                    continue
                if s2 and not c2:
                    comp = self.complete("doc", s2, completion_budget)
                    if comp is not None:
                        diffs.append({"direction": "doc-only", "prefix": list(w), "token": t, "completion": comp,
                                      "code_stack": self._stack(cs), "doc_rules": sorted(self.doc.open_rules(s2)),
                                      "doc_inner": self.doc.inner_rules(ss), "doc_via": self.doc.via(ss, t)})
                if c2:
                    n = (c2, s2 or frozenset(), l2 or empty_l)
                    if n not in seen:
                        seen.add(n)
                        dq.append((n, w + (t,)))
        return diffs

    @staticmethod
    def _stack(configs):
        best = ()
        for c in configs:
            if len(c[5]) > len(best):
                best = c[5]
        return list(best)
