"""A7: backwards provenance tracing over MIR def-use chains.

origins(body, operand) returns the set of origin descriptors a value may come from:
  ('call', callee, bb)        result of a call that is not a pass-through
  ('const', text)             a constant
  ('arg', n, fieldpath)       the n-th parameter (1-based), optionally a field path of it
  ('arith', op, bb)           computed by a binary/unary arithmetic operation
  ('agg', adt/kind, bb)       a freshly built aggregate that is not looked into
  ('unknown', why)
Pass-through calls (conversions, unwrapping, cloning, deref) forward the provenance of their first
argument. Field projections are followed into aggregates built in the same body."""
import re

from .facts import Body, op_local, op_place, op_const

PASS = re.compile(
    r"^std::result::Result::<T, E>::(unwrap|expect|unwrap_or_default|ok|unwrap_unchecked)$|"
    r"^std::option::Option::<T>::(unwrap|expect|copied|cloned|as_ref|as_mut|take|unwrap_or_default|as_deref)$|"
    r"std::convert::(Try)?Into<.*>>::(try_)?into$|^std::convert::(Try)?Into::(try_)?into$|"
    r"std::convert::(Try)?From<.*>>::(try_)?from$|^std::convert::(Try)?From::(try_)?from$|"
    r"std::clone::Clone>::clone$|^std::clone::Clone::clone$|"
    r"std::ops::Deref>::deref$|std::ops::DerefMut>::deref_mut$|^std::ops::Deref(Mut)?::deref(_mut)?$|"
    r"std::ops::Try>::branch$|^std::borrow::(Borrow|ToOwned)|std::borrow::Borrow<.*>::borrow$|"
    r"^std::sync::Arc::<T>::new$|^std::boxed::Box::<T>::new$|std::convert::AsRef<.*>>::as_ref$|"
    r"^<T as std::convert::Into<U>>::into$|^<T as std::convert::From<T>>::from$|"
    r"^<T as std::convert::TryInto<U>>::try_into$|^std::iter::IntoIterator::into_iter$|"
    r"^std::string::String::(as_str|as_mut_str|into_boxed_str)$|std::string::ToString>::to_string$|"
    r"std::borrow::ToOwned>::to_owned$|^std::str::<impl str>::to_owned$|^std::path::PathBuf::as_path$|"
    r"IntoIterator>::into_iter$|^std::iter::Iterator::(by_ref|rev|peekable|fuse)$")


def origins(body, op, depth=0, seen=None, fieldpath=()):
    """op: operand dict ({'copy':place}|{'move':place}|{'const':..}) or an int local."""
    seen = seen if seen is not None else set()
    if isinstance(op, int):
        place = {"l": op, "p": []}
    else:
        c = op_const(op)
        if c is not None:
            return {("const", c.get("val"))}
        if "fn" in op:
            return {("const", op["fn"])}
        place = op_place(op)
        if place is None:
            return {("unknown", "operand")}
    res = place_origins(body, place, depth, seen, fieldpath)
    if depth == 0 and len(res) > 1:
        # a value that is read after a `?` cannot be the residual of that `?`: `FromResidual::from_residual(..)` only ever
        # flows to an early return. (It shows up next to the real origin when an Option-returning helper was inlined.)
        real = {x for x in res if not (x[0] == "call" and str(x[1]).endswith("::from_residual"))}
        if real:
            res = real
        # likewise a literal `None` (the `_ => None` arm of an inlined Option-returning helper) carries no value
        def is_none(x):
            if x[0] != "agg" or not str(x[1]).endswith("option::Option") or not isinstance(x[2], int):
                return False
            for st in body.blocks[x[2]]["s"]:
                ag = (st.get("rv") or {}).get("agg")
                if isinstance(ag, dict) and str(ag.get("adt", "")).endswith("option::Option"):
                    return ag.get("variant") == "None"
            return False
        real = {x for x in res if not is_none(x)}
        if real and len(real) < len(res):
            res = real
    return res


def _fields_of(proj):
    out = []
    for pe in proj:
        if pe == "*":
            continue
        if isinstance(pe, dict) and "f" in pe:
            out.append(pe.get("n") or str(pe["f"]))
        elif isinstance(pe, dict) and "dc" in pe:
            out.append("as:" + str(pe.get("n")))
        else:
            out.append("?")
    return tuple(out)


def place_origins(body, place, depth, seen, fieldpath):
    l = place["l"]
    fp = _fields_of(place["p"]) + tuple(fieldpath)
    key = (l, fp)
    if key in seen or depth > 40:
        return {("unknown", "cycle")}
    seen = seen | {key}
    if 1 <= l <= body.argc and not body.defs().get(l):
        return {("arg", l, fp)}
    defs = body.defs().get(l, [])
    # partial (field) writes to this local
    partial = []
    for i, bb in enumerate(body.blocks):
        if bb["cleanup"]:
            continue
        for s in bb["s"]:
            a = s.get("a")
            if a and a["l"] == l and a["p"]:
                partial.append((i, a, s["rv"]))
    out = set()
    if not defs and not partial:
        if 1 <= l <= body.argc:
            return {("arg", l, fp)}
        return {("unknown", "no-def")}
    for d in defs:
        if d[0] == "call":
            t = d[2]
            callee = Body.callee(t) or "<indirect>"
            if PASS.search(callee) and t["args"]:
                # unwrap-like: Option/Result/ControlFlow payload projections are transparent
                nfp = tuple(x for x in fp if not x.startswith("as:") and x not in ("0",)) if fp else fp
                out |= origins(body, t["args"][0], depth + 1, seen, nfp)
            else:
                out.add(("call", callee, d[1], fp))
        else:
            rv = d[3]
            out |= rvalue_origins(body, rv, d[1], depth, seen, fp)
    for (i, a, rv) in partial:
        pf = _fields_of(a["p"])
        if fp[:len(pf)] == pf:
            out |= rvalue_origins(body, rv, i, depth, seen, fp[len(pf):])
    return out


def rvalue_origins(body, rv, bb, depth, seen, fp):
    if "use" in rv:
        return origins(body, rv["use"], depth + 1, seen, fp)
    if "ref" in rv:
        return place_origins(body, rv["ref"], depth + 1, seen, fp)
    if "cast" in rv:
        return origins(body, rv["cast"], depth + 1, seen, fp)
    if "agg" in rv:
        k = rv["agg"]
        ops = rv["ops"]
        if fp:
            # select the field being read, by name (struct) or index (tuple)
            f0 = fp[0]
            idx = None
            if f0.startswith("as:"):
                return rvalue_origins(body, rv, bb, depth, seen, fp[1:])
            if f0.isdigit():
                idx = int(f0)
            elif isinstance(k, dict) and "adt" in k:
                idx = adt_field_index(body, k, f0)
            if idx is not None and idx < len(ops):
                return origins(body, ops[idx], depth + 1, seen, fp[1:])
            return {("agg", k.get("adt") if isinstance(k, dict) else str(k), bb)}
        if isinstance(k, dict) and "adt" in k and len(ops) == 1 and k.get("variant") in ("Some", "Ok"):
            return origins(body, ops[0], depth + 1, seen, fp)
        return {("agg", (k.get("adt") or k.get("closure")) if isinstance(k, dict) else str(k), bb)}
    if "binop" in rv:
        return {("arith", rv["binop"], bb)}
    if "unop" in rv:
        return {("arith", rv["unop"], bb)}
    if "discr" in rv:
        return {("arith", "discriminant", bb)}
    return {("unknown", "rvalue")}


_ADT_FIELDS = {}


def adt_field_index(body, k, name):
    from .facts import program
    prog = program()
    a = prog.adts.get(k["adt"])
    if not a:
        return None
    for v in a["variants"]:
        if v["name"] == k.get("variant") or not a["is_enum"]:
            for i, f in enumerate(v["fields"]):
                if f["n"] == name:
                    return i
    return None
