"""Inlining of helper functions that do not exist in the reference tree.

A function that is new (absent from tdq/anchors.json and not recognised as a renaming) and is called statically is
spliced back into its callers in the in-memory MIR facts, so that "extract function" refactorings leave the shape the
rules were written against: the callee's blocks and locals are appended to the caller, arguments become assignments,
`return` becomes an assignment to the call's destination followed by a jump to the call's continuation. The original
function stays in the facts as well. Closures of an inlined function are re-parented to its (single) caller.
Nothing is done on the reference tree itself (it has no new functions)."""
import copy
import json
import os

from .renames import ANCHORS, CRATES

MAX_BLOCKS = 400
MAX_INLINES = 120


def _remap(obj, off_l, off_b, same=None):
    """deep copy with locals shifted by off_l (places and index projections); `same` maps callee locals that are the
    caller's own locals (a `self` handed on as `&mut *self`) to those"""
    same = same or {}
    if isinstance(obj, dict):
        if "l" in obj and "p" in obj and isinstance(obj["l"], int) and isinstance(obj["p"], list):
            return {"l": same.get(obj["l"], obj["l"] + off_l), "p": [_remap(x, off_l, off_b, same) for x in obj["p"]]}
        if "idx" in obj and isinstance(obj["idx"], int) and len(obj) == 1:
            return {"idx": same.get(obj["idx"], obj["idx"] + off_l)}
        return {k: _remap(v, off_l, off_b, same) for k, v in obj.items()}
    if isinstance(obj, list):
        return [_remap(x, off_l, off_b, same) for x in obj]
    return obj


def _self_alias(caller, block, operand):
    """is the operand the caller's own `self` (local 1) handed on unchanged: `_1`, or a temporary `&mut *_1` / `&*_1`
    made in the same block?"""
    pl = operand.get("move") or operand.get("copy") if isinstance(operand, dict) else None
    if not pl or pl["p"]:
        return False
    if pl["l"] == 1:
        return True
    for st in caller["blocks"][block]["s"]:
        if st.get("a", {}).get("l") == pl["l"] and not st["a"]["p"]:
            rv = st.get("rv") or {}
            r = rv.get("ref")
            if isinstance(r, dict) and r.get("l") == 1 and r.get("p") == ["*"]:
                return True
            u = rv.get("use")
            if isinstance(u, dict):
                q = u.get("move") or u.get("copy")
                if q and q["l"] == 1 and not q["p"]:
                    return True
    return False


def _remap_term(t, off_l, off_b, same=None):
    t = _remap(t, off_l, off_b, same)
    if t.get("t") is not None and t["k"] in ("goto", "call", "drop", "assert"):
        t["t"] = t["t"] + off_b
    if t["k"] == "switch":
        t["arms"] = [[a[0], a[1] + off_b] for a in t["arms"]]
        t["else"] = t["else"] + off_b
    return t


def _calls_self(raw):
    for bb in raw["blocks"]:
        t = bb["term"]
        if t["k"] == "call" and (t["f"].get("fn") == raw["path"]):
            return True
    return False


CLOSURE_CALL = ("std::ops::FnOnce::call_once", "std::ops::FnMut::call_mut", "std::ops::Fn::call")


def _closure_of(caller, local, depth=0):
    """the closure a local holds, if it is assigned exactly once from a closure aggregate (directly, through moves, or
    through a reference to such a local)"""
    if depth > 12:
        return None
    defs = []
    for bb in caller["blocks"]:
        for st in bb["s"]:
            a = st.get("a")
            if a and a["l"] == local and not a["p"]:
                defs.append(st.get("rv") or {})
        t = bb["term"]
        if t["k"] == "call" and t.get("dest") and t["dest"]["l"] == local and not t["dest"]["p"]:
            defs.append({"call": True})
    if len(defs) != 1:
        return None
    rv = defs[0]
    agg = rv.get("agg")
    if isinstance(agg, dict) and "closure" in agg:
        return agg["closure"]
    src = None
    if isinstance(rv.get("use"), dict):
        src = rv["use"].get("move") or rv["use"].get("copy")
    elif isinstance(rv.get("ref"), dict):
        src = rv["ref"]
    if src and not src["p"]:
        return _closure_of(caller, src["l"], depth + 1)
    return None


def _inline_known_closures(caller, bodies, budget):
    n = 0
    i = 0
    while i < len(caller["blocks"]) and n < budget:
        t = caller["blocks"][i]["term"]
        i += 1
        if t["k"] != "call" or not isinstance(t.get("f"), dict) or t["f"].get("fn") not in CLOSURE_CALL or \
                t["f"].get("how") != "unresolved" or len(t["args"]) != 2 or t.get("dest") is None:
            continue
        pl = t["args"][0].get("move") or t["args"][0].get("copy")
        tup = t["args"][1].get("move") or t["args"][1].get("copy")
        if not pl or pl["p"] or not tup:
            continue
        cpath = _closure_of(caller, pl["l"])
        clo = bodies.get(cpath) if cpath else None
        if clo is None or len(clo["blocks"]) > MAX_BLOCKS:
            continue
        off_l = len(caller["locals"])
        off_b = len(caller["blocks"])
        caller["locals"].extend(copy.deepcopy(clo["locals"]))
        ln = t.get("ln")
        blk = caller["blocks"][i - 1]
        blk["s"].append({"a": {"l": off_l + 1, "p": []}, "rv": {"use": t["args"][0]}, "ln": ln})
        for k in range(2, clo["argc"] + 1):
            fld = {"f": k - 2, "n": str(k - 2), "t": clo["locals"][k].get("t")}
            blk["s"].append({"a": {"l": off_l + k, "p": []},
                             "rv": {"use": {"move": {"l": tup["l"], "p": list(tup["p"]) + [fld]}}}, "ln": ln})
        cont, dest = t["t"], t["dest"]
        for bb in clo["blocks"]:
            nb = {"s": [_remap(x, off_l, off_b) for x in bb["s"]], "cleanup": bb.get("cleanup", False),
                  "term": _remap_term(bb["term"], off_l, off_b)}
            if nb["term"]["k"] == "return":
                nb["s"].append({"a": dest, "rv": {"use": {"move": {"l": off_l, "p": []}}}, "ln": ln})
                nb["term"] = {"k": "goto", "t": cont, "ln": ln} if cont is not None else {"k": "unreachable", "ln": ln}
            caller["blocks"].append(nb)
        blk["term"] = {"k": "goto", "t": off_b, "ln": ln}
        n += 1
    return n


def inline_new_functions(raws):
    """-> notes; mutates raws"""
    if not os.path.exists(ANCHORS):
        return []
    ref = json.load(open(ANCHORS))["functions"]
    bodies = {}
    for cname, raw in raws.items():
        if cname not in CRATES:
            continue
        for b in raw["bodies"]:
            bodies.setdefault((cname, b["path"]), b)
    new = {}
    for (cname, path), b in bodies.items():
        if b.get("parent") or path in ref or b.get("defkind") not in ("Fn", "AssocFn"):
            continue
        if len(b["blocks"]) > MAX_BLOCKS or _calls_self(b):
            continue
        new[(cname, path)] = b
    if not new:
        return []
    notes = []
    done = 0
    sites = {}
    # innermost first: a new helper that calls another new helper is expanded before it is copied
    for _round in range(4):
        changed = False
        for (cname, cpath), caller in list(bodies.items()):
            i = 0
            while i < len(caller["blocks"]) and done < MAX_INLINES:
                t = caller["blocks"][i]["term"]
                callee = new.get((cname, t["f"].get("fn"))) if t["k"] == "call" and isinstance(t.get("f"), dict) else None
                if callee is None or callee is caller or t["f"].get("how") not in ("static", None) or \
                        len(t["args"]) != callee["argc"] or t.get("dest") is None:
                    i += 1
                    continue
                off_l = len(caller["locals"])
                off_b = len(caller["blocks"])
                caller["locals"].extend(copy.deepcopy(callee["locals"]))
                ln = t.get("ln")
                same = {}
                caller_is_method = caller.get("argc", 0) >= 1 and "self" == (caller["locals"][1].get("n") if len(caller["locals"]) > 1 else None)
                for k, a in enumerate(t["args"]):
                    if k == 0 and caller_is_method and _self_alias(caller, i, a) and \
                            callee["locals"][1].get("t") == caller["locals"][1].get("t"):
                        same[1] = 1         # the helper's self is the caller's self
                        continue
                    caller["blocks"][i]["s"].append({"a": {"l": off_l + k + 1, "p": []}, "rv": {"use": a}, "ln": ln})
                cont = t["t"]
                dest = t["dest"]
                for bb in callee["blocks"]:
                    nb = {"s": [_remap(x, off_l, off_b, same) for x in bb["s"]], "cleanup": bb.get("cleanup", False),
                          "term": _remap_term(bb["term"], off_l, off_b, same)}
                    if nb["term"]["k"] == "return":
                        nb["s"].append({"a": dest, "rv": {"use": {"move": {"l": off_l, "p": []}}}, "ln": ln})
                        nb["term"] = {"k": "goto", "t": cont, "ln": ln} if cont is not None else {"k": "unreachable", "ln": ln}
                    caller["blocks"].append(nb)
                caller["blocks"][i]["term"] = {"k": "goto", "t": off_b, "ln": ln}
                sites.setdefault(callee["path"], set()).add(cpath)
                done += 1
                changed = True
                i += 1
        if not changed:
            break
    # a closure handed to an inlined generic helper (`with_symbol_at(db, pos, |symbol| ..)`) is called there through
    # an unresolved `FnOnce::call_once`; once the helper is part of the caller the closure is known: splice its body
    targets = {c for cs in sites.values() for c in cs}
    for (cname, cpath), caller in list(bodies.items()):
        if cpath in targets:
            done += _inline_known_closures(caller, {p: b for (cn, p), b in bodies.items() if cn == cname}, MAX_INLINES - done)
    for cname, raw in raws.items():
        if cname not in CRATES:
            continue
        for b in raw["bodies"]:
            par = b.get("parent")
            if par in sites and len(sites[par]) == 1:
                b["parent_inlined_from"] = par
                b["parent"] = next(iter(sites[par])).split("::{closure")[0] if False else next(iter(sites[par]))
    # a helper all of whose call sites were expanded no longer exists as a function of its own
    still_called = set()
    for cname, raw in raws.items():
        if cname not in CRATES:
            continue
        for b in raw["bodies"]:
            for bb in b["blocks"]:
                t = bb["term"]
                if t["k"] == "call" and isinstance(t.get("f"), dict) and t["f"].get("fn") in sites and b["path"] != t["f"].get("fn"):
                    still_called.add(t["f"]["fn"])
            for bb in b["blocks"]:
                for st in bb["s"]:
                    if "fn" in json.dumps(st) and any(('"fn": "%s"' % x) in json.dumps(st) for x in sites):
                        for x in sites:
                            if ('"fn": "%s"' % x) in json.dumps(st):
                                still_called.add(x)
    for cname, raw in raws.items():
        if cname in CRATES:
            raw["bodies"] = [b for b in raw["bodies"] if not (b["path"] in sites and b["path"] not in still_called and not b.get("parent"))]
    for path, callers in sorted(sites.items()):
        notes.append("function %s does not exist in the reference tree: inlined into %s for the analysis" % (path, ", ".join(sorted(callers))))
    return notes
