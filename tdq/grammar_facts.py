"""Runs the parser abstract interpretation once per tree (cached next to the MIR facts) and exposes
its results in a plain-data form shared by C02, C03, C04, C05, C18."""
import os
import pickle
import time

from . import parser_ai

ROOT = "syntax::grammar::source_file"


class GrammarFacts:
    pass


def compute(prog):
    t0 = time.time()
    ai = parser_ai.analyse(prog)
    g = GrammarFacts()
    g.wall = round(time.time() - t0, 2)
    g.rounds = ai.rounds
    g.contexts = len(ai.memo)
    g.states = ai.states_explored
    g.ALL = ai.ALL
    g.trivia = ai.trivia
    g.consumed_by_pp = ai.consumed_by_pp
    g.panics = {k: dict(v, la=sorted(v["la"])) for k, v in ai.panics.items()}
    g.noprogress = dict(ai.noprogress)
    g.leftrec = {("%s" % k[0], tuple(sorted(k[1]))): v for k, v in ai.leftrec.items()}
    g.balance = dict(ai.balance)
    g.unsupported = dict(ai.unsupported)
    g.children = {k: set(v) for k, v in ai.children.items()}
    g.firsts = {k: set(v) for k, v in ai.firsts.items()}
    g.node_sites = {k: set(v) for k, v in ai.node_sites.items()}
    g.assert_calls = {k: set(v) for k, v in ai.assert_calls.items()}
    g.functions = {}
    for ctx, outs in ai.memo.items():
        g.functions.setdefault(ctx[0], []).append((ctx, outs))
    g.loop_heads = {fn: sorted(ai.heads(prog.body(fn))) for fn in g.functions if prog.body(fn) is not None}
    g.discipline = dict(ai.discipline)
    g.root_outcomes = ai.memo.get((ROOT, ai.ALL, (False, False),
                                   (parser_ai.SELF,) + tuple(parser_ai.UNK for _ in range(prog.body(ROOT).argc - 1))))
    g.call_la = {k: set(v) for k, v in ai.call_la.items()}
    return g


def get(prog):
    cache = os.path.join(prog.dir, "grammar_ai.pkl")
    here = os.path.dirname(os.path.abspath(__file__))
    deps = [os.path.join(here, f) for f in ("parser_ai.py", "grammar_facts.py", "facts.py", "inline.py", "renames.py",
                                            "anchors.json", "paths.py", "cfg.py")]
    if os.path.exists(cache) and all(os.path.getmtime(cache) >= os.path.getmtime(f) for f in deps if os.path.exists(f)):
        try:
            with open(cache, "rb") as fh:
                return pickle.load(fh)
        except Exception:
            pass
    g = compute(prog)
    tmp = cache + ".%d.tmp" % os.getpid()
    with open(tmp, "wb") as fh:
        pickle.dump(g, fh)
    os.replace(tmp, cache)
    return g


# ---------------------------------------------------------------------------- derived facts
def child_summary(g, kind, error_free_only=False):
    """kind -> {child kind: (min lo, max hi)} over all observed completions of node `kind`."""
    obs = [c for c, err in g.children.get(kind, ()) if not (error_free_only and err)]
    if not obs:
        return None
    kinds = set()
    for c in obs:
        kinds |= {k for k, _, _ in c}
    out = {}
    for k in kinds:
        lo = 99
        hi = 0
        for c in obs:
            d = {kk: (l, h) for kk, l, h in c}
            l, h = d.get(k, (0, 0))
            lo = min(lo, l)
            hi = max(hi, h)
        out[k] = (lo, hi)
    return out


def must_children(g, kind):
    """child kinds present in EVERY completion of node `kind`, on malformed input too"""
    s = child_summary(g, kind)
    if s is None:
        return None
    return {k for k, (lo, hi) in s.items() if lo >= 1}
