"""C09 Location fidelity — every range converted for the client is converted with the line table of the
file the range belongs to, and named with that file's URI (file pairing by provenance)."""
import re

from .. import prov, cfg
from ..facts import Body, op_local
from .c13 import closure_capture_origins

TO_PROTO = "lsp::to_proto::"
FROM_PROTO = ("lsp::from_proto::file", "lsp::from_proto::file_pos", "lsp::from_proto::file_range")
LINE_INDEX_Q = "ide::analysis::Analysis::line_index"
FILELESS_QUERIES = re.compile(r"^ide::analysis::Analysis::(document_symbol|folding_range|document_link|inlay_hint|hover|completion)$")
OWNFILE_QUERIES = re.compile(r"^ide::analysis::Analysis::(goto_definition|references|diagnostics)$")


def lift(prog, body, o):
    """resolve an origin that is a captured variable of a closure into origins in the creating body;
    returns set of (body, origin)"""
    if o[0] == "arg" and o[1] == 1 and body.parent and o[2] and o[2][0].isdigit():
        parent = prog.body(body.parent)
        k = int(o[2][0])
        out = set()
        for po in closure_capture_origins(prog, parent, body.path, k):
            rest = o[2][1:]
            if rest:
                if po[0] == "call":
                    po = (po[0], po[1], po[2], po[3] + rest)
                elif po[0] == "arg":
                    po = (po[0], po[1], po[2] + rest)
            out |= lift(prog, parent, po)
        return out
    return {(body.path, o)}


def all_origins(prog, body, op):
    out = set()
    for o in prov.origins(body, op):
        out |= lift(prog, body, o)
    return out


def file_class(prog, item, seen=None):
    """Abstract 'which file' of a value given as (body path, origin). Returns a hashable class or None."""
    seen = seen or set()
    if item in seen:
        return None
    seen = seen | {item}
    bpath, o = item
    body = prog.body(bpath)
    if o[0] == "call":
        callee, bb, fields = o[1], o[2], o[3]
        if callee in FROM_PROTO:
            return ("request-document", bpath, bb)
        if callee == LINE_INDEX_Q:
            t = body.term(bb)
            cls = {file_class(prog, x, seen) for x in all_origins(prog, body, t["args"][1])}
            return next(iter(cls)) if len(cls) == 1 else ("ambiguous", tuple(sorted(map(str, cls))))
        if FILELESS_QUERIES.match(callee):
            t = body.term(bb)
            cls = {file_class(prog, x, seen) for x in all_origins(prog, body, t["args"][1])}
            return next(iter(cls)) if len(cls) == 1 else ("ambiguous", tuple(sorted(map(str, cls))))
        if OWNFILE_QUERIES.match(callee):
            # each element carries its own file: identify the element by the query call and the access path
            f = tuple(x for x in fields if x not in ("file", "range", "location"))
            return ("own-file-of", bpath, callee, bb, f)
        if re.search(r"Iterator>::next$|^std::iter::Iterator::next$", callee):
            t = body.term(bb)
            base = {file_class(prog, x, seen) for x in all_origins(prog, body, t["args"][0])}
            b0 = next(iter(base)) if len(base) == 1 else None
            if b0 and b0[0] == "own-file-of":
                # iterating a collection of own-file values: the element (any field of it) is one value
                return ("element-of", b0, bpath, bb)
            return b0
        return ("call", callee, bpath, bb)
    if o[0] == "arg":
        # a closure parameter (element handed in by an iterator adaptor) or a function parameter
        if body.parent and o[1] >= 2:
            # element of the collection the closure is mapped over: find the adaptor call in the parent
            parent = prog.body(body.parent)
            for i, t in parent.calls():
                gas = t["f"].get("args") or []
                if any(ga.get("closure") == body.path for ga in gas):
                    base = {file_class(prog, x, seen) for x in all_origins(prog, parent, t["args"][0])}
                    b0 = next(iter(base)) if len(base) == 1 else None
                    if b0 and b0[0] in ("own-file-of",):
                        return ("element-of", b0, body.parent, i)
                    return b0
        return ("param", bpath, o[1])
    return None


def run(ck, prog):
    ck.explanation = (
        "For every call of a to_proto conversion in crate lsp (handlers, their closures, the diagnostics task) "
        "the LineIndex argument and the converted value are traced back by def-use provenance (through closure "
        "captures, iterator adaptors and the from_proto helpers) to the file they belong to: the document of the "
        "request (results of from_proto::file/file_pos/file_range), the file argument of the Analysis query that "
        "produced a file-less result, or - for values that carry their own file (FileRange, Diagnostic) - that "
        "very value's file. The two must be the same file class (R09.1); the URI must be path_for_file of the "
        "value's own file (R09.2); and diagnostics are grouped under their own location's file in ide (R09.3). "
        "Shared with neighbouring properties: R09.4 conversion basis (C10), R09.5 editor text recorded before files are "
        "re-read (C12), R09.6 to_proto::range converts each endpoint of the analysed span through position() on its own, "
        "never one endpoint from the other (C10). "
        "Not decided: the numeric exactness of the conversion (C10), concurrent edits.")
    ck.trusted = ["salsa snapshot: line_index(f) is the table of f's text in the analysed revision"]
    ck.rule("R09.1", "line table and converted range belong to the same file")
    ck.rule("R09.2", "URI is built from the value's own file id")
    ck.rule("R09.3", "diagnostics are grouped under their own location's file")
    sites = [(b, i, t) for b, i, t in prog.call_sites(lambda c: c.startswith(TO_PROTO))
             if b.crate == "lsp.rlib" and not b.path.startswith(TO_PROTO)]
    n = 0
    per = {}
    for b, i, t in sites:
        callee = Body.callee(t)
        cb = prog.body(callee)
        if cb is None:
            continue
        li_idx = None
        val_idx = None
        for k in range(1, cb.argc + 1):
            ty = cb.local_ty(k)
            if "LineIndex" in ty:
                li_idx = k - 1
            elif "Vfs" in ty:
                pass
            else:
                val_idx = k - 1
        if li_idx is None or val_idx is None:
            continue
        n += 1
        per[b.path] = per.get(b.path, 0) + 1
        key = "%s->%s#%d" % (b.path, callee.rsplit("::", 1)[-1], per[b.path])
        vty = cb.local_ty(val_idx + 1)
        own = "FileRange" in vty or "Diagnostic" in vty
        li_cls = {file_class(prog, x) for x in all_origins(prog, b, t["args"][li_idx])}
        v_items = all_origins(prog, b, t["args"][val_idx])
        v_cls = {file_class(prog, x) for x in v_items}
        ok = len(li_cls) == 1 and len(v_cls) == 1 and None not in li_cls and None not in v_cls
        detail = "line index: %s; value: %s" % (sorted(map(str, li_cls)), sorted(map(str, v_cls)))
        if ok:
            lc, vc = next(iter(li_cls)), next(iter(v_cls))
            if own:
                # the line table must be that of the value's own file: line_index(value.file), or both taken
                # from the same (file, values) map entry
                ok = lc == vc or same_entry(lc, vc)
            else:
                ok = lc == vc
        ck.ob("R09.1", key, ok, detail,
              msg="%s: %s converts a %s with a line table of a different file (%s) — a location in an included file "
                  "would be expressed in the wrong file's line/column coordinates [%s]" % (
                      b.path, callee.rsplit("::", 1)[-1], vty.rsplit("::", 1)[-1], detail, b.where(i)))
    ck.floor("R09.1", "to_proto conversion sites", n, 7)

    # ---- R09.2 inside to_proto: the URL comes from path_for_file(&value.file / &link.target)
    for fn, field in (("lsp::to_proto::location", "file"), ("lsp::to_proto::document_link", "target")):
        b = prog.body(fn)
        ck.anchor(b is not None, fn + " not found")
        ok = False
        for i, t in b.calls():
            if (Body.callee(t) or "").endswith("path_for_file"):
                o = prov.origins(b, t["args"][1])
                ok = all(x[0] == "arg" and x[2][-1:] == (field,) for x in o)
        ck.ob("R09.2", "uri:%s" % fn, ok, "%s: URI = path_for_file(value.%s)" % (fn, field),
              msg="%s builds the URI from something other than the value's own %s" % (fn, field))
    ub = prog.body("lsp::server::Server::update_diagnostics::{closure#0}")
    ck.anchor(ub is not None, "diagnostics task closure not found")
    okp = False
    for i, t in ub.calls():
        if (Body.callee(t) or "").endswith("path_for_file"):
            pc = {file_class(prog, x) for x in all_origins(prog, ub, t["args"][1])}
            lic = set()
            for j, t2 in ub.calls():
                if Body.callee(t2) == LINE_INDEX_Q:
                    lic = {file_class(prog, x) for x in all_origins(prog, ub, t2["args"][1])}
            okp = len(pc) == 1 and pc == lic
    ck.ob("R09.2", "uri:diagnostics", okp, "published URI and line table use the same map key",
          msg="update_diagnostics publishes a file's diagnostics under the URI of a different file id than the one whose line table it used")

    # ---- R09.3 ide: the map key of a diagnostic is its own location.file
    db = prog.body("ide::handlers::diagnostics::exec")
    ck.anchor(db is not None, "diagnostics::exec not found")
    ok = False
    for dbx in [db] + prog.closures_of(db.path):
        for i, t in dbx.calls():
            if not re.search(r"HashMap::<[^>]*>::entry$", Body.callee(t) or ""):
                continue
            o = prov.origins(dbx, t["args"][1])
            ok = all(x[0] == "call" and x[3][-2:] == ("location", "file") or (x[0] == "arg" and x[2][-2:] == ("location", "file")) for x in o) and bool(o)
            # the pushed value is the same diagnostic
    ck.ob("R09.3", "bucket-key", ok, "diagnostics::exec buckets each diagnostic under diagnostic.location.file",
          msg="diagnostics::exec no longer files each diagnostic under its own location's file")
    # shared with C12 (same defect seen from here): the editor's text is recorded before anything re-reads files
    from .c12 import overlay_tables, overlay_before_reread, SERVER_SET as _SS
    from ..callgraph import callgraph as _cgf
    _cg = _cgf(prog)
    _sb = prog.body(_SS)
    ck.anchor(_sb is not None, "Server::set_file_content not found")
    _ri, _ow = overlay_tables(prog, _cg)
    from .c10 import conversion_basis
    ck.rule("R09.4", "the conversions use LF/CR/CRLF line breaks and UTF-16 columns (shared with C10)")
    conversion_basis(ck, prog, "R09.4")
    ck.rule("R09.5", "positions are converted against the text the editor sent: it is in the open-document table before the include walk re-reads files")
    overlay_before_reread(ck, prog, _cg, _sb, _ow, _ri, "R09.5")
    from .c10 import range_endpoints
    ck.rule("R09.6", "a range sent to the client has both endpoints converted from the analysed span's own endpoints (shared with C10)")
    range_endpoints(ck, prog, "R09.6")


def same_entry(lc, vc):
    """line-index file and value come from fields of the same iterator element (map entry)"""
    def elem(c):
        while c and c[0] == "element-of":
            return c
        return None
    if lc and vc and lc[0] == "element-of" and vc[0] == "element-of":
        return lc[1] == vc[1] and lc[2] == vc[2]
    if lc and vc and vc[0] == "element-of" and isinstance(vc[1], tuple) and vc[1][0] == "element-of":
        return lc == vc[1]
    return False
