"""C07 Incremental consistency — derived values are functions of salsa inputs only, and the hand-kept
inputs are refreshed on every re-rooting (structural necessary conditions)."""
import re

from .. import cfg, prov
from ..facts import Body, op_local
from ..callgraph import callgraph

IMPURE = re.compile(
    r"^std::env::|^std::fs::|^std::time::|^std::thread::|^std::process::|^std::io::(stdin|stdout|stderr)|"
    r"^std::net::|^rand::|^std::collections::hash_map::RandomState|^std::sync::(Mutex|RwLock|Once|OnceLock|mpsc)|"
    r"^std::cell::(RefCell|Cell|OnceCell)|^std::sync::atomic::|^std::thread_local|LocalKey")
QUERIES = ("ide::db::parse", "ide::db::line_index", "ide::index::index")
COLLECT = "ide::file_system::collect_sources"


def run(ck, prog):
    ck.explanation = (
        "salsa's memoisation is trusted; what this code must guarantee is decided structurally: (R07.1) nothing "
        "reachable from the query functions parse, line_index and index (through ide and syntax, whole-program "
        "call graph) touches the environment, the file system, time, threads, interior-mutable or static state "
        "- the only database reads are salsa queries; (R07.2) the three inputs are written only from "
        "AnalysisHost methods and the include walk; (R07.3) the hand-maintained inputs are refreshed on every "
        "re-rooting: AnalysisHost::set_root_file always runs collect_sources and always ends in "
        "set_source_root; collect_sources stores a freshly built include map for every file it visits, built "
        "from db.parse of that same file; AnalysisHost::set_file_content writes the text input on every path; the "
        "server follows every set_file_content with set_root_file; (R07.4) "
        "the three constructions of IncludeId agree (SyntaxNodePtr::new of the Include node's own syntax()). "
        "Not decided: the equality over all edit histories itself, salsa's correctness, SyntaxNodePtr collisions.")
    ck.trusted = ["salsa 0.16 memoisation/invalidation", "tracing macros have no semantic effect"]
    for r, t in (("R07.1", "query functions are pure functions of salsa inputs"),
                 ("R07.2", "inputs have one writer path"),
                 ("R07.3", "hand-kept inputs are refreshed on every root selection"),
                 ("R07.4", "IncludeId constructions agree")):
        ck.rule(r, t)
    cg = callgraph(prog)

    # ---- R07.1 -------------------------------------------------------------------
    for q in QUERIES:
        ck.anchor(prog.body(q) is not None, q + " not found")
    reach = cg.reachable(list(QUERIES))
    n_ext = 0
    bad = []
    for p in sorted(reach):
        b = prog.bodies[p]
        if b.crate not in ("ide.rlib", "syntax.rlib"):
            continue
        for (c, bb, t) in cg.ext_calls(p):
            n_ext += 1
            if t.get("mac") and "tracing::" in t["mac"]:
                continue
            if IMPURE.search(c or ""):
                bad.append((p, c, b.where(bb)))
        for blk in b.blocks:
            for s in blk["s"]:
                rv = s.get("rv") or {}
                if "tls" in rv:
                    bad.append((p, "thread-local " + rv["tls"], b.loc))
    for p, c, w in bad:
        ck.ob("R07.1", "impure:%s:%s" % (p, c), False,
              msg="%s (reachable from a salsa query function) calls %s [%s]: the query result would depend on something "
                  "salsa does not track, and survives into later revisions" % (p, c, w))
    ck.ob("R07.1", "scan", not bad, "%d bodies below the query functions, %d external call sites, none ambient" % (len(reach), n_ext))
    ck.count(n_ext)
    ck.floor("R07.1", "bodies reachable from the query functions", len(reach), 200)

    # ---- R07.2 -------------------------------------------------------------------
    writers = {}
    for b in prog.bodies.values():
        if b.crate not in ("ide.rlib", "lsp.rlib") or b.path.startswith("ide::tests") or "__shim" in b.path or \
                b.path.startswith("<DB as ide::db::SourceDatabase>"):
            continue
        for i, t in b.calls():
            d = (t["f"].get("decl") or Body.callee(t) or "")
            m = re.search(r"SourceDatabase(>)?::(set_file_content|set_source_root|set_resolved_include_map)$", d)
            if m:
                writers.setdefault(m.group(2), set()).add(b.path)
    # a writer must sit below the two mutators of AnalysisHost (main loop, exclusive access) and must not be
    # reachable from a query function or from the snapshot API (a write inside a query deadlocks or is lost)
    mutators = [p for p in prog.bodies if re.search(r"AnalysisHost::(set_file_content|set_root_file)$", p)]
    ck.anchor(len(mutators) == 2, "AnalysisHost::set_file_content / set_root_file not found")
    below = cg.reachable(mutators) | set(mutators)
    snapshot_api = [p for p in prog.bodies if re.match(r"ide::analysis::Analysis::\w+$", p)]
    from_queries = cg.reachable(list(QUERIES) + snapshot_api)
    for inp in ("set_file_content", "set_source_root", "set_resolved_include_map"):
        w = writers.get(inp, set())
        outside = sorted(x for x in w if x not in below)
        inside_q = sorted(x for x in w if x in from_queries)
        ck.ob("R07.2", "writers:%s" % inp, bool(w) and not outside and not inside_q, "%s written by %s" % (inp, sorted(w)),
              msg="salsa input %s is written from %s: outside AnalysisHost's mutators %s / reachable from a query or the "
                  "snapshot API %s" % (inp, sorted(w), outside, inside_q))

    # ---- R07.3 -------------------------------------------------------------------
    sr = prog.body("ide::analysis::AnalysisHost::set_root_file")
    ck.anchor(sr is not None, "AnalysisHost::set_root_file not found")
    coll = {i for i, t in sr.calls() if Body.callee(t) == COLLECT}
    sets = {i for i, t in sr.calls() if (Body.callee(t) or "").endswith("SourceDatabase>::set_source_root")}
    p1 = cfg.path_exists(sr, 0, lambda x: sr.term(x)["k"] == "return", avoid=coll, include_src=True)
    p2 = cfg.path_exists(sr, 0, lambda x: sr.term(x)["k"] == "return", avoid=sets, include_src=True)
    ck.ob("R07.3", "reroot-walks", bool(coll) and p1 is None, "set_root_file always re-walks the include graph",
          msg="AnalysisHost::set_root_file can return without calling collect_sources: include maps and included file "
              "contents of an earlier revision survive")
    ck.ob("R07.3", "reroot-sets-root", bool(sets) and p2 is None, "set_root_file always stores the new source root",
          msg="AnalysisHost::set_root_file can return without set_source_root: the workspace file set of an earlier "
              "revision survives (e.g. when an include is added under the same root)")
    for i in sets:
        o = prov.origins(sr, sr.term(i)["args"][1])
        ck.ob("R07.3", "root-value", any(x[0] == "call" and x[1] == COLLECT for x in o) or
              all(x[0] == "call" for x in o), "the stored source root is the result of this walk", nontrivial=False,
              msg="set_source_root stores something other than the result of collect_sources")
    cb = prog.body(COLLECT)
    ck.anchor(cb is not None, "collect_sources not found")
    loops = cfg.loops(cb)
    wl = None
    for h, bl in loops:
        if any(cb.term(i)["k"] == "call" and (Body.callee(cb.term(i)) or "").endswith("pop_front") for i in bl):
            if wl is None or len(bl) > len(wl[1]):
                wl = (h, bl)
    ck.anchor(wl is not None, "work-list loop not found")
    h, bl = wl
    maps = {i for i in bl if cb.term(i)["k"] == "call" and
            (cb.term(i)["f"].get("decl") or "").endswith("SourceDatabase::set_resolved_include_map")}
    inserts = {i for i in bl if cb.term(i)["k"] == "call" and (Body.callee(cb.term(i)) or "").endswith("FileSet::insert")}
    # every iteration that records the file (non-skipped) stores its include map before the next iteration
    ok = bool(maps) and bool(inserts)
    for ins in inserts:
        p = cfg.path_exists(cb, ins, lambda x: x == h, avoid=maps | (set(range(len(cb.blocks))) - set(bl)))
        ok = ok and p is None
    ck.ob("R07.3", "include-map-refreshed", ok, "every visited file gets set_resolved_include_map on every path of the iteration",
          msg="collect_sources can visit a file without storing a fresh include map for it: a stale map from an earlier "
              "revision stays in effect (wrong link targets, false or missing 'include file not found')")
    for i in maps:
        t = cb.term(i)
        fo = prov.origins(cb, t["args"][1])
        mo = prov.origins(cb, t["args"][2])
        okf = all(x[0] == "call" and x[1].endswith("pop_front") for x in fo)
        okm = all(x[0] == "call" and re.search(r"HashMap::<[^>]*>::new$", x[1]) for x in mo)
        ck.ob("R07.3", "include-map-fresh", okf and okm, "the stored map is a new map, keyed under the popped file",
              msg="collect_sources stores an include map that is not freshly built for the file being visited (%s / %s)" % (sorted(fo), sorted(mo)))
    # the parse used to list includes is db.parse of the same file
    li = [(i, t) for i, t in cb.calls() if Body.callee(t) == "ide::file_system::list_includes"]
    okp = len(li) == 1
    if okp:
        o = prov.origins(cb, li[0][1]["args"][0])
        okp = False
        for x in o:
            if x[0] == "call" and x[1].endswith("Parse::syntax_node"):
                for y in prov.origins(cb, cb.term(x[2])["args"][0]):
                    if y[0] == "call" and y[1].endswith("::parse"):
                        fo = prov.origins(cb, cb.term(y[2])["args"][-1])
                        okp = all(z[0] == "call" and z[1].endswith("pop_front") for z in fo)
    ck.ob("R07.3", "includes-from-current-parse", okp, "includes are listed from db.parse(file) of the file being visited",
          msg="collect_sources lists includes from something other than the current parse of the visited file")
    # every include target recorded in this walk was resolved in this walk (nothing is carried over from the previous one)
    from .c16 import include_targets
    cs = prog.body(COLLECT)
    ck.anchor(cs is not None, "collect_sources not found")
    include_targets(ck, prog, cs, "R07.3")
    # the host hands every text on to the database: a "same text as last time" filter in the host is blind to the texts
    # the include walk writes straight into the database (A -> B by the walk -> A again would be dropped, leaving B)
    hb = prog.body("ide::analysis::AnalysisHost::set_file_content")
    ck.anchor(hb is not None, "AnalysisHost::set_file_content not found")
    ws = {i for i, t in hb.calls() if (Body.callee(t) or "").endswith("SourceDatabase>::set_file_content")}
    skip = cfg.path_exists(hb, 0, lambda x: hb.term(x)["k"] == "return", avoid=ws, include_src=True)
    ck.ob("R07.3", "host-writes-text", bool(ws) and skip is None,
          "AnalysisHost::set_file_content writes the file_content input on every path",
          msg="AnalysisHost::set_file_content can return without writing the file_content input%s: the database keeps a text "
              "from an earlier revision (for instance one the include walk stored in between)" % (
                  " [%s]" % hb.where(skip[-1]) if skip else ""))
    sb = prog.body("lsp::server::Server::set_file_content")
    ck.anchor(sb is not None, "Server::set_file_content not found")
    hs = {i for i, t in sb.calls() if Body.callee(t) == "ide::analysis::AnalysisHost::set_file_content"}
    rs = {i for i, t in sb.calls() if Body.callee(t) == "ide::analysis::AnalysisHost::set_root_file"}
    ok = bool(hs) and bool(rs)
    for x in hs:
        ok = ok and cfg.path_exists(sb, x, lambda y: sb.term(y)["k"] == "return", avoid=rs) is None
    ck.ob("R07.3", "server-reroots", ok, "every set_file_content in the server is followed by set_root_file",
          msg="Server::set_file_content can store a text without re-rooting: include maps are not refreshed after the edit")

    # ---- R07.4 -------------------------------------------------------------------
    n = 0
    for b in prog.bodies.values():
        if b.crate != "ide.rlib":
            continue
        for i, bb in enumerate(b.blocks):
            for s in bb["s"]:
                rv = s.get("rv") or {}
                if "agg" in rv and isinstance(rv["agg"], dict) and rv["agg"].get("adt") == "ide::file_system::IncludeId":
                    if (b.impl_trait or "").startswith("std::"):      # derived Clone etc.
                        continue
                    n += 1
                    o = prov.rvalue_origins(b, rv, i, 0, set(), ("0",))
                    ok = False
                    for x in o:
                        if x[0] == "call" and x[1].endswith("SyntaxNodePtr::<L>::new"):
                            no = prov.origins(b, b.term(x[2])["args"][0])
                            ok = all(y[0] == "call" and re.search(r"^<syntax::ast::Include as .*AstNode>::syntax$", y[1]) for y in no)
                    ck.ob("R07.4", "include-id:%s" % b.path, ok, "IncludeId(SyntaxNodePtr::new(include.syntax()))",
                          msg="%s builds an IncludeId differently from the other sites (%s): a map written by one site cannot be "
                              "read by the others" % (b.path, sorted(o)))
    ck.floor("R07.4", "IncludeId constructions", n, 3)
