"""C15 Preprocessor — structural clauses: parked errors surface, missing macro names are errors, the skip
loops implement the reference transition table of the nesting counter, own errors take priority."""
import re

from .. import cfg, paths, prov
from ..facts import Body, op_local, op_const
from .c14 import may_return_kinds

PP = "syntax::preprocessor::PreProcessor::<T>::"
TS = "syntax::token_stream::TokenStream::"
TOKENKIND = "syntax::token_kind::TokenKind"


def run(ck, prog):
    ck.explanation = (
        "Decided on the MIR of preprocessor.rs: (R15.1) every token kind produced by PreProcessor::error or by a "
        "PreProcessor helper returning a TokenKind flows into the caller's return value on every path (a parked "
        "error whose Error kind is dropped can never be fetched by the parser); (R15.2) the non-identifier arms "
        "of process_if / process_define return self.error(..); (R15.3) the directive handlers return only "
        "PreProcessor or Error kinds (disabled text is a single trivia token); (R15.4) every loop that skips "
        "disabled text implements the reference transition table of the nesting counter: #ifdef and #ifndef "
        "increment, #endif decrements above depth 1, #else/#endif end the skip exactly at depth 1, Eof reports "
        "and stops, everything else is neutral; (R15.5) take_error prefers the preprocessor's own slot; "
        "(R15.6) a macro is defined only by process_define, and process_if consults the macro set with the "
        "name it just read; (R15.7) necessary conditions for reporting a conditional whose *enabled* branch runs to the "
        "end of the file: the path of process_if that lets the text through records something in the preprocessor's "
        "state, and next_token has a path on Eof that returns self.error(..). Not decided: that the tokens selected "
        "equal a reference evaluation for every arrangement (a property of the composed state machine).")
    ck.trusted = ["TokenStream contract of the inner lexer"]
    for r, t in (("R15.1", "token kinds produced by error()/helpers reach the caller's return value"),
                 ("R15.2", "directive without macro name => error"),
                 ("R15.3", "directive handlers return only PreProcessor/Error"),
                 ("R15.4", "skip loops follow the reference nesting-counter table"),
                 ("R15.5", "own parked error before the inner stream's"),
                 ("R15.6", "macro table: single writer, looked up by the directive's own name")):
        ck.rule(r, t)
    bodies = {p: b for p, b in prog.bodies.items() if p.startswith(PP) and not b.parent}
    ck.anchor(len(bodies) >= 8, "PreProcessor methods not found")

    # ---- R15.1 ---------------------------------------------------------------------
    n = 0
    for p, b in sorted(bodies.items()):
        for i, t in b.calls():
            c = Body.callee(t) or ""
            if not c.startswith(PP):
                continue
            cb = prog.body(c)
            if cb is None or cb.locals[0]["t"] != TOKENKIND:
                continue
            n += 1
            d = t["dest"]
            flows = (d["l"] == 0 and not d["p"]) or local_flows_to_return(b, d["l"])
            # must hold on every path from the call to a return: no path where the value is overwritten/dropped
            ck.ob("R15.1", "kind-returned:%s<-%s#%d" % (p.rsplit("::", 1)[-1], c.rsplit("::", 1)[-1], n), flows,
                  "the TokenKind returned by %s becomes %s's result" % (c.rsplit("::", 1)[-1], p.rsplit("::", 1)[-1]),
                  msg="%s discards the token kind returned by %s [%s]: if it is an Error kind with a parked message, "
                      "the parser never sees the Error token and the message is never reported" % (p, c, b.where(i)))
    ck.floor("R15.1", "kind-producing helper calls", n, 8)

    # ---- R15.2 ---------------------------------------------------------------------
    for fn in ("process_if", "process_define"):
        b = bodies.get(PP + fn)
        ck.anchor(b is not None, fn + " not found")
        tk = {v["discr"]: v["name"] for v in prog.adts[TOKENKIND]["variants"]}
        ok = True
        seen_other = False
        for pth in paths.enum_paths(b, prog):
            if pth.end != "return":
                continue
            id_arm = None
            for e in pth.events:
                if e[0] == "branch" and e[2].kind == "discr" and e[2].data[1] == TOKENKIND:
                    if isinstance(e[3], tuple):
                        id_arm = False
                    else:
                        id_arm = tk.get(e[3]) == "Id"
            if id_arm is False:
                seen_other = True
                r = paths.describe_result(prog, pth.ret)
                if not (r[0] == "call" and (r[1] or "").endswith("::error")):
                    ok = False
        ck.ob("R15.2", "missing-name:%s" % fn, ok and seen_other, "%s: a token other than an identifier after the directive => self.error(..)" % fn,
              msg="%s: a directive without a macro name is not reported as an error" % fn)

    # ---- R15.3 ---------------------------------------------------------------------
    for fn in ("process_if", "process_else", "process_endif", "process_define"):
        kinds = may_return_kinds(prog, PP + fn)
        # error() is a local call: may_return_kinds records 'Error' only for lexer paths; add by callee scan
        b = bodies.get(PP + fn)
        ck.anchor(b is not None, fn + " not found")
        extra = {"Error"} if any((Body.callee(t) or "").endswith("PreProcessor::<T>::error") for _, t in b.calls()) else set()
        ck.ob("R15.3", "kinds:%s" % fn, (kinds | extra) <= {"PreProcessor", "Error"} and bool(kinds | extra),
              "%s returns %s" % (fn, sorted(kinds | extra)),
              msg="%s can return %s: directive handlers must yield a PreProcessor trivia token or an Error" % (fn, sorted(kinds | extra)))

    # ---- R15.4 ---------------------------------------------------------------------
    nloops = 0
    for p, b in sorted(bodies.items()):
        for h, blocks in cfg.loops(b):
            eats = [i for i in blocks if b.term(i)["k"] == "call" and (b.term(i)["f"].get("decl") or "") == TS + "eat"]
            if not eats:
                continue
            table = loop_transition_table(prog, b, h, blocks, eats[0])
            if table is None:
                # no depth counter. A loop that decides on a directive kind (#endif / #else) is still a skip loop, and
                # without a counter a nested conditional's #endif ends it; a loop that tests no directive
                # (next_not_trivia) is not a skip loop.
                names = {v["name"]: v["discr"] for v in prog.adts[TOKENKIND]["variants"]}
                directive = False
                for x in blocks:
                    t = b.term(x)
                    if t["k"] == "switch" and paths.switch_cond(b, prog, x).kind == "discr":
                        if {a[0] for a in t["arms"]} & {names.get("Endif"), names.get("Else")}:
                            directive = True
                if directive:
                    nloops += 1
                    ck.ob("R15.4", "skip-loop:%s:no-depth-counter" % p.rsplit("::", 1)[-1], False,
                          msg="%s skips text up to a #endif/#else without counting nested #ifdef/#ifndef: the #endif of a "
                              "conditional nested in the skipped text ends the skip early and the rest is delivered [%s]"
                              % (p, b.where(h)))
                continue
            nloops += 1
            from ..callgraph import callgraph
            cg = callgraph(prog)
            used_by_if = p in cg.reachable([PP + "process_if"], kinds=("call",))
            other = table.get("<other>")

            def row(k):
                return table.get(k) if k in table else other

            def expect(k, ok, want_text):
                got = row(k)
                ck.ob("R15.4", "skip-loop:%s:%s" % (p.rsplit("::", 1)[-1], k), ok(got),
                      "%s while skipping in %s: %s" % (k, p.rsplit("::", 1)[-1], sorted(got or [])),
                      msg="%s: while skipping disabled text, token %s behaves as %s (depth-in, net effect, outcome); the "
                          "nesting discipline requires: %s" % (p, k, sorted(got or []), want_text))

            def at(got, d):
                return {(e, r) for (g, e, r) in (got or ()) if g == d or g == "any"}

            inc = lambda got: at(got, "==1") == {("+1", "continue")} and at(got, ">=2") == {("+1", "continue")}
            expect("Ifdef", inc, "+1 and continue at every depth")
            expect("Ifndef", inc, "+1 and continue at every depth")
            expect("Endif", lambda got: {r for e, r in at(got, "==1")} == {"exit"} and at(got, ">=2") == {("-1", "continue")},
                   "exit at depth 1, -1 and continue above")
            if used_by_if:
                expect("Else", lambda got: {r for e, r in at(got, "==1")} == {"exit"} and at(got, ">=2") == {("0", "continue")},
                       "exit at depth 1 (the #else branch becomes enabled), neutral above")
            else:
                expect("Else", lambda got: at(got, ">=2") == {("0", "continue")} and
                       {r for e, r in at(got, "==1")} <= {"exit", "continue"} and
                       all(e == "0" for e, r in at(got, "==1") if r == "continue"),
                       "neutral above depth 1")
            expect("Eof", lambda got: {r for e, r in at(got, "==1")} == {"exit-error"} and {r for e, r in at(got, ">=2")} == {"exit-error"},
                   "report the unterminated region and stop")
            expect("<other>", lambda got: at(got, "==1") == {("0", "continue")} and at(got, ">=2") == {("0", "continue")},
                   "neutral")
    ck.floor("R15.4", "depth-counting skip loops", nloops, 1)

    # ---- R15.5 ---------------------------------------------------------------------
    tb = prog.body("<syntax::preprocessor::PreProcessor<T> as syntax::token_stream::TokenStream>::take_error")
    ck.anchor(tb is not None, "PreProcessor::take_error not found")
    issome = [i for i, t in tb.calls() if (Body.callee(t) or "").endswith("Option::<T>::is_some") or (Body.callee(t) or "").endswith("Option::<T>::is_none")]
    deleg = [i for i, t in tb.calls() if (t["f"].get("decl") or "") == TS + "take_error"]
    own = [i for i, t in tb.calls() if (Body.callee(t) or "").endswith("Option::<T>::take")]
    dom = cfg.dominators(tb)
    ok = bool(issome) and bool(deleg) and bool(own) and all(any(s in dom[d] for s in issome) for d in deleg)
    if ok:
        # the is_some test is on the own slot
        o = prov.origins(tb, tb.term(issome[0])["args"][0])
        ok = all(x[0] == "arg" and x[2][-1:] == ("error",) for x in o)
    ck.ob("R15.5", "own-first", ok, "take_error tests its own slot first and delegates only when it is empty",
          msg="PreProcessor::take_error no longer prefers its own parked error: a stale lexer error from disabled text "
              "can replace the preprocessor's message")

    # ---- R15.6 ---------------------------------------------------------------------
    writers = set()
    for p, b in prog.bodies.items():
        if b.crate != "syntax.rlib":
            continue
        for i, t in b.calls():
            c = Body.callee(t) or ""
            if re.search(r"HashSet::<[^>]*>::(insert|remove|clear)$", c):
                o = prov.origins(b, t["args"][0])
                if any(x[0] == "arg" and x[2][-1:] == ("macros",) for x in o):
                    writers.add(p)
    ck.ob("R15.6", "macro-writers", writers == {PP + "define_macro"}, "the macro set is written only by define_macro",
          msg="the macro set is modified outside define_macro: %s" % sorted(writers))
    callers = {b.path for b, i, t in prog.call_sites(lambda c: c == PP + "define_macro") if b.crate == "syntax.rlib"}
    ck.ob("R15.6", "define-callers", callers <= {PP + "process_define"} and callers,
          "define_macro is called only from process_define (enabled #define)",
          msg="define_macro is called from %s: a macro must be defined only by an enabled #define" % sorted(callers))
    pi = bodies.get(PP + "process_if")
    lookups = [t for _, t in pi.calls() if re.search(r"HashSet::<[^>]*>::contains$", Body.callee(t) or "")]
    ok = len(lookups) == 1
    if ok:
        o = prov.origins(pi, lookups[0]["args"][1])
        ok = all(x[0] == "call" and (x[1] == TS + "text") for x in o)
    ck.ob("R15.6", "lookup-by-name", ok, "process_if looks the macro up by the text of the token it just read",
          msg="process_if no longer consults the macro set with the directive's own macro name")
    enabled_unterminated(ck, prog)
    disabled_text_silent(ck, prog)
    open_counter_table(ck, prog)


def disabled_text_silent(ck, prog):
    """R15.9: lexical errors of disabled text are never reported: the parser asks the token stream for a pending message
    only when the token it saves is an Error token, and only from there"""
    from .c02 import save_guard, PB, TS
    ck.rule("R15.9", "a pending lexical message becomes a diagnostic only for a delivered Error token")
    save_guard(ck, prog, "R15.9")
    callers = set()
    for p_, b_ in prog.bodies.items():
        for i, t in b_.calls():
            if (Body.callee(t) or "") == TS + "take_error" or (t["f"].get("decl") or "") == TS + "take_error":
                callers.add(p_)
    want = {PB + "save", "<syntax::preprocessor::PreProcessor<T> as syntax::token_stream::TokenStream>::take_error"}
    extra = {c for c in callers - want if not c.startswith(("tablegen_parse", "dump"))}
    ck.ob("R15.9", "take_error-callers", not extra and (PB + "save") in callers,
          "take_error is called only from ParserBase::save and the preprocessor's delegation",
          msg="take_error has unexpected callers %s: a message left by text in a disabled region can surface as a diagnostic" % sorted(extra))


def enabled_unterminated(ck, prog):
    """R15.7 (see explanation)."""
    ck.rule("R15.7", "an enabled conditional left open at end of file can be reported: opening it is recorded, Eof consults it")
    pi = prog.body(PP + "process_if")
    nt = prog.body(PP + "next_token")
    ck.anchor(pi is not None and nt is not None, "process_if / next_token not found")
    # (a) every path of process_if that returns the PreProcessor kind itself (text let through: no skip, no error)
    #     writes preprocessor state
    n = 0
    ok_all = True
    _memo = {}
    for p in paths.enum_paths(pi, prog):
        if p.end != "return" or not p.ret or p.ret[0] != "rv":
            continue
        d = paths.describe_result(prog, p.ret)
        if d[0] != "variant" or d[2] != "PreProcessor":
            continue
        n += 1
        wrote = False
        mutrefs = set()
        for e in p.events:
            if e[0] == "assign":
                a = e[2]["a"]
                rv = e[2]["rv"]
                if a["l"] == 1 and a["p"] and a["p"][0] == "*" and len(a["p"]) > 1:
                    wrote = True
                if isinstance(rv, dict) and "ref" in rv and rv.get("mut") and rv["ref"]["l"] == 1 and len(rv["ref"]["p"]) > 1:
                    mutrefs.add(a["l"])
            elif e[0] == "call":
                for arg in e[2]["args"]:
                    l = op_local(arg)
                    if l in mutrefs:
                        wrote = True
                c = Body.callee(e[2]) or ""
                if c.startswith(PP) and c != pi.path:
                    # a helper method of the preprocessor that changes one of its counters
                    if any(net not in (0,) for (_lab, net, _rk) in counter_effects(prog, c, _memo)):
                        wrote = True
        ok_all = ok_all and wrote
    ck.ob("R15.7", "open-recorded", n > 0 and ok_all,
          "%d path(s) of process_if let the text through; each writes a field of the preprocessor" % n,
          msg="process_if lets the text of an enabled conditional through without recording anything in the preprocessor: a "
              "conditional whose enabled branch runs to the end of the file (`#define A` `#ifdef A` .. EOF, `#ifndef B` .. EOF) can "
              "never be reported")
    # (b) next_token: some path taken on the Eof kind returns self.error(..)
    eofd = None
    for v in prog.adts[TOKENKIND]["variants"]:
        if v["name"] == "Eof":
            eofd = v["discr"]
    found = False
    for p in paths.enum_paths(nt, prog):
        if p.end != "return":
            continue
        on_eof = any(e[0] == "branch" and e[2].kind == "discr" and e[3] == eofd for e in p.events)
        if on_eof and p.ret and p.ret[0] == "call" and (Body.callee(p.ret[1]) or "").endswith("::error"):
            found = True
    ck.ob("R15.7", "eof-consults-state", found, "next_token has a path on Eof that returns self.error(..)",
          msg="next_token hands Eof on unconditionally: an open conditional is never reported at the end of the file")


def counter_effects(prog, fn, memo, stack=()):
    """Net effect of one call of PreProcessor method `fn` on the integer fields of the preprocessor, per way the call can
    end: set of (token kind that ended a skip inside it | None, net change | '=k' | '?'). Read off the MIR by summing, on
    every path, the `self.field = self.field +/- c` updates (saturating or not) and the effects of the PreProcessor
    methods it calls; a loop iteration must leave the counter unchanged (else '?')."""
    if fn in memo:
        return memo[fn]
    if fn in stack:
        return {(None, "?", "other")}
    b = prog.body(fn)
    if b is None:
        return {(None, 0, "other")}
    tk = {v["discr"]: v["name"] for v in prog.adts[TOKENKIND]["variants"]}
    skipper = any(any(b.term(i)["k"] == "call" and (b.term(i)["f"].get("decl") or "") == TS + "eat" for i in blocks)
                  and any(b.term(i)["k"] == "switch" for i in blocks) and
                  any({a[0] for a in b.term(i)["arms"]} & {d for d, n in tk.items() if n in ("Endif", "Else")}
                      for i in blocks if b.term(i)["k"] == "switch")
                  for h, blocks in cfg.loops(b))

    def items_of(path):
        out = []
        val = {}            # local -> delta relative to the field's value when it was read
        zero_known = [False]
        cval = {}           # local -> constant it was last assigned
        for e in path.events:
            if e[0] == "branch" and e[2].kind == "binop" and isinstance(e[2].data, dict):
                rvb = e[2].data
                for side, other in (("a", "b"), ("b", "a")):
                    l_ = op_local(rvb.get(side)) if isinstance(rvb.get(side), dict) else None
                    c_ = op_const(rvb.get(other)) if isinstance(rvb.get(other), dict) else None
                    if l_ is not None and val.get(l_) == 0 and c_ is not None and c_.get("int") == 0:
                        x, y = (0, 0)
                        truth = {"Eq": True, "Ne": False, "Lt": False, "Le": True, "Gt": False, "Ge": True}.get(rvb.get("binop"))
                        if truth is not None and paths.branch_truth(e[3]) == truth:
                            zero_known[0] = True
            if e[0] == "assign":
                a, rv = e[2]["a"], e[2]["rv"]
                isfield = a["l"] == 1 and len(a["p"]) == 2 and a["p"][0] == "*" and isinstance(a["p"][1], dict) and \
                    re.match(r"[ui](8|16|32|64|size)$", a["p"][1].get("t", ""))

                def src(op):
                    if not isinstance(op, dict):
                        return None
                    for k in ("copy", "move"):
                        if k in op:
                            pl = op[k]
                            if pl["l"] == 1 and len(pl["p"]) == 2 and pl["p"][0] == "*" and isinstance(pl["p"][1], dict):
                                return 0
                            if pl["l"] in val and (not pl["p"] or (len(pl["p"]) == 1 and isinstance(pl["p"][0], dict) and pl["p"][0].get("f") == 0)):
                                return val[pl["l"]]
                    return None
                if isfield:
                    c = op_const(rv.get("use")) if isinstance(rv, dict) and "use" in rv else None
                    d = src(rv.get("use")) if isinstance(rv, dict) and "use" in rv else None
                    if c is None and isinstance(rv, dict) and "use" in rv and op_local(rv["use"]) in cval:
                        c = {"int": cval[op_local(rv["use"])]}
                    if c is not None and "int" in c and c["int"] == 0 and zero_known[0]:
                        # `if n > 0 { n - 1 } else { 0 }`: on the path where the counter is known to be zero, storing 0 is
                        # the saturated decrement (`saturating_sub(1)` is summed as -1 in the same way)
                        out.append(("net", -1))
                    elif c is not None and "int" in c:
                        out.append(("set", c["int"]))
                    elif d is not None:
                        out.append(("net", d))
                    else:
                        out.append(("net", "?"))
                elif not a["p"] and isinstance(rv, dict):
                    k_ = op_const(rv.get("use")) if "use" in rv else None
                    if k_ is not None and "int" in k_:
                        cval[a["l"]] = k_["int"]
                    else:
                        cval.pop(a["l"], None)
                    if "use" in rv and src(rv["use"]) is not None:
                        val[a["l"]] = src(rv["use"])
                    elif rv.get("binop") in ("AddWithOverflow", "Add", "SubWithOverflow", "Sub"):
                        d = src(rv["a"])
                        c = op_const(rv["b"])
                        if d is not None and c is not None and "int" in c:
                            val[a["l"]] = d + (c["int"] if rv["binop"].startswith("Add") else -c["int"])
                        else:
                            val.pop(a["l"], None)
                    else:
                        val.pop(a["l"], None)
            elif e[0] == "call":
                t = e[2]
                c = Body.callee(t) or ""
                m = re.search(r"::(saturating_sub|saturating_add|wrapping_sub|wrapping_add)$", c)
                if m and not t["dest"]["p"]:
                    a0 = t["args"][0]
                    d = None
                    for k in ("copy", "move"):
                        if k in a0 and a0[k]["l"] in val and not a0[k]["p"]:
                            d = val[a0[k]["l"]]
                    cst = op_const(t["args"][1]) if len(t["args"]) > 1 else None
                    if d is not None and cst is not None and "int" in cst:
                        val[t["dest"]["l"]] = d + (cst["int"] if "add" in m.group(1) else -cst["int"])
                elif c.startswith(PP) and c != fn:
                    out.append(("call", c))
            elif skipper and e[0] == "branch" and e[2].kind == "discr" and not isinstance(e[3], tuple) and e[3] in tk:
                out.append(("tok", tk[e[3]]))
        return out

    res = set()
    for path in paths.enum_paths(b, prog):
        if path.end == "loop":
            its = items_of(path)
            # an iteration that goes round again must not change the counter
            if any(x[0] in ("net", "set") and x[1] not in (0,) for x in its if x[0] != "tok"):
                pass    # effects before the loop are on the same prefix; checked through the return paths
            continue
        if path.end != "return":
            continue
        combos = [(None, 0)]
        for it in items_of(path):
            nxt = []
            for (lab, net) in combos:
                if it[0] == "tok":
                    nxt.append((lab if lab is not None else it[1], net))
                elif it[0] == "net":
                    nxt.append((lab, "?" if (net == "?" or it[1] == "?") else (net + it[1] if not isinstance(net, str) else net)))
                elif it[0] == "set":
                    nxt.append((lab, "=%d" % it[1]))
                else:
                    for (l2, n2, _rk) in counter_effects(prog, it[1], memo, stack + (fn,)):
                        if isinstance(n2, str) or isinstance(net, str):
                            nn = n2 if isinstance(n2, str) else net
                        else:
                            nn = net + n2
                        nxt.append((lab if lab is not None else l2, nn))
            combos = nxt
        d = paths.describe_result(prog, path.ret)
        rk = d[2] if d[0] == "variant" else ("Error" if d[0] == "call" and str(d[1]).endswith("::error") else "other")
        res |= {(lab, net, rk) for (lab, net) in combos}
    memo[fn] = res
    return res


def open_counter_table(ck, prog):
    """R15.8: bookkeeping of the open-conditional counter, as a table of net effects per directive handler and per way
    its skip ends, against the reference: entering a delivered branch +1, leaving it -1, a skipped conditional 0."""
    ck.rule("R15.8", "the counter of open conditionals changes by the reference amount in every directive handler")
    memo = {}
    # (handler, token that ended the skip inside it | None = no skip, delivered) -> reference net change
    want = [("process_if", None, {1}), ("process_if", "Else", {1}), ("process_if", "Endif", {0}),
            ("process_else", "Endif", {-1}), ("process_else", "Else", {0}),
            ("process_endif", None, {-1})]
    n = 0
    for fn, lab, nets in want:
        eff = counter_effects(prog, PP + fn, memo)
        g = {net for (l, net, rk) in eff if l == lab and rk != "Error"}
        n += 1
        ck.ob("R15.8", "%s:%s" % (fn, lab or "delivered"), bool(g) and g <= nets,
              "%s %s changes the counter by %s" % (fn, ("with its skip ending at " + lab) if lab else "letting the text through / returning directly", sorted(map(str, g))),
              msg="PreProcessor::%s, %s, changes the open-conditional counter by %s; the reference is %s (a conditional closed "
                  "twice hides an unterminated outer conditional; one never closed reports a terminated file)"
                  % (fn, ("when its skip ends at " + lab) if lab else "when it returns without skipping", sorted(map(str, g)) or "nothing", sorted(nets)))
    ck.floor("R15.8", "counter table rows", n, 6)


def local_flows_to_return(b, l):
    """is local l copied/moved (possibly through temporaries) into _0?"""
    seen = set()
    work = [l]
    while work:
        x = work.pop()
        if x in seen:
            continue
        seen.add(x)
        if x == 0:
            return True
        for bb in b.blocks:
            if bb["cleanup"]:
                continue
            for s in bb["s"]:
                a = s.get("a")
                rv = s.get("rv") or {}
                if a and not a["p"] and "use" in rv and op_local(rv["use"]) == x:
                    work.append(a["l"])
    return False


def loop_transition_table(prog, b, h, blocks, eat_bb):
    """For a loop `match stream.eat() {...}` with an integer counter: token kind -> set of
    (guard on the counter, counter effect, continue|exit|exit-error)."""
    tk = {v["discr"]: v["name"] for v in prog.adts[TOKENKIND]["variants"]}
    rk = {n: d for d, n in tk.items()}
    # find the counter: a local with Add/SubWithOverflow by const 1 inside the loop
    counters = set()
    for i in blocks:
        for s in b.blocks[i]["s"]:
            rv = s.get("rv") or {}
            if rv.get("binop") in ("AddWithOverflow", "SubWithOverflow"):
                l = op_local(rv["a"])
                d = b.single_def(l) if l is not None else None
                src = op_local(d[3]["use"]) if d and d[0] == "stmt" and "use" in d[3] else l
                counters.add(src)
    if not counters:
        return None
    sw = b.term(eat_bb)["t"]
    # the discriminant switch after eat()
    while sw is not None and b.term(sw)["k"] != "switch":
        nx = b.succ(sw)
        if len(nx) != 1:
            return None
        sw = nx[0]
    st = b.term(sw)
    table = {}
    inloop = set(blocks)

    def exit_reports_error(x):
        # does the exit path from block x to the return call PreProcessor::error?
        for y in b.reachable(x, avoid=inloop):
            t = b.term(y)
            if t["k"] == "call" and (Body.callee(t) or "").endswith("PreProcessor::<T>::error"):
                return True
        return False

    def walk(start, kind):
        """outcomes for concrete counter values 1, 2, 3 (the counter starts at 1 and the loop ends at 1)"""
        out = set()
        for depth in (1, 2, 3):
            x = start
            cur = depth
            seen = set()
            res = None
            while True:
                if x in seen:
                    res = "diverge"
                    break
                seen.add(x)
                if x == h or x == eat_bb:
                    res = "continue"
                    break
                if x not in inloop:
                    res = "exit-error" if exit_reports_error(x) else "exit"
                    break
                bb = b.blocks[x]
                for s in bb["s"]:
                    rv = s.get("rv") or {}
                    if rv.get("binop") == "AddWithOverflow":
                        cur += 1
                    elif rv.get("binop") == "SubWithOverflow":
                        cur -= 1
                t = bb["term"]
                if t["k"] == "switch":
                    g = counter_guard(b, x)
                    if g is None:
                        sc = paths.switch_cond(b, prog, x)
                        if sc.kind == "discr" and sc.data[1] == TOKENKIND:
                            # a test of the token just eaten (the one `match`, or one link of an `if kind == ..` chain)
                            arms = dict((a[0], a[1]) for a in t["arms"])
                            x = arms.get(rk.get(kind), t["else"]) if kind is not None else t["else"]
                            continue
                        # a switch that is not a counter test (drop flags etc.): follow the unique in-loop edge if any
                        nxt = b.succ(x)
                        x = nxt[0]
                        continue
                    op, const = g
                    val = {"Ge": cur >= const, "Eq": cur == const, "Gt": cur > const, "Le": cur <= const,
                           "Lt": cur < const, "Ne": cur != const}[op]
                    zero = dict((a[0], a[1]) for a in t["arms"]).get(0)
                    x = t["else"] if val else zero
                    continue
                nxt = b.succ(x)
                if not nxt:
                    res = "exit"
                    break
                x = nxt[0]
            d = cur - depth
            eff = "0" if d == 0 else "%+d" % d
            if res and res.startswith("exit"):
                eff = "0"
            out.add(("==1" if depth == 1 else ">=2", eff, res))
        return out

    named = set()
    for x in blocks:
        tx = b.term(x)
        if tx["k"] == "switch":
            sc = paths.switch_cond(b, prog, x)
            if sc.kind == "discr" and sc.data[1] == TOKENKIND:
                named.update(tk.get(val) for val, _ in tx["arms"])
    named.discard(None)
    for k in sorted(named):
        table.setdefault(k, set()).update(walk(sw, k))
    table["<other>"] = walk(sw, None)
    # normalise: for kinds whose arms fall through guards into the default arm, "other" outcomes remain
    norm = {}
    for k, outs in table.items():
        o2 = set()
        for (g, e, a) in outs:
            o2.add((g, e, a))
        norm[k] = o2
    return norm


def counter_guard(b, blk):
    """(op, const) if the switch of block blk tests `counter <op> const`"""
    t = b.term(blk)
    l = op_local(t["d"])
    d = b.single_def(l) if l is not None else None
    if d and d[0] == "stmt" and d[3].get("binop") in ("Ge", "Eq", "Gt", "Le", "Lt", "Ne"):
        c = op_const(d[3]["b"])
        if c and "int" in c:
            return d[3]["binop"], c["int"]
    return None
