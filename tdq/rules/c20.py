"""C20 Completion vocabulary is closed under the server's own lexer and parser.

Finite tables, extracted from the type-checked MIR and compared exhaustively."""
import re

from .. import paths, ref, cfg, prov
from ..facts import Body
from ..common import lexer_tables, statement_dispatch

COMPLETION = "ide::handlers::completion::CompletionContext::"
ITEM_CTORS = ("ide::handlers::completion::CompletionItem::new_simple",
              "ide::handlers::completion::CompletionItem::new_snippet")
ADAPTORS = re.compile(r"std::iter::Iterator::(filter|filter_map|skip|take|step_by|skip_while|take_while|"
                      r"map_while|flat_map|dedup|nth)$")


def harvest(ck, prog):
    """every CompletionItem constructor site of the completion module (functions and closures):
    -> {root function name: [(kind variant, [labels])]}; labels are the constant first argument, or - when the label is a
    loop / iterator element - the constant string arrays and slices of the enclosing function"""
    mod = "ide::handlers::completion::"
    is_words = lambda ty: "&str" in ty and "[" in ty
    out = {}
    for pth, b in prog.bodies.items():
        if not pth.startswith(mod):
            continue
        root = b
        while root.parent and prog.body(root.parent) is not None:
            root = prog.body(root.parent)
        for i, t in b.calls():
            c = Body.callee(t)
            if c not in ITEM_CTORS:
                continue
            kind = None
            for a in t["args"]:
                for o in prov.origins(b, a):
                    if o[0] == "agg" and str(o[1]).endswith("CompletionItemKind"):
                        for st in b.blocks[o[2]]["s"]:
                            ag = (st.get("rv") or {}).get("agg")
                            if isinstance(ag, dict) and str(ag.get("adt", "")).endswith("CompletionItemKind"):
                                kind = ag.get("variant")
            label = paths.const_str(t["args"][0])
            if label is not None:
                labels = [label]
            else:
                labels = []
                seen = set()
                for body in (b, root):
                    for cst, lst in paths.const_arrays_in(body, is_words):
                        if tuple(lst) not in seen:
                            seen.add(tuple(lst))
                            labels.extend(lst)
                if not labels and kind != "Class":
                    ck.anchor(False, "%s builds completion labels (kind %s) from a non-constant source" % (root.path, kind))
            out.setdefault(root.path.rsplit("::", 1)[-1], []).append((kind, labels))
            ROOTS[root.path.rsplit("::", 1)[-1]] = root
    return out


ROOTS = {}


def offered_labels(ck, prog, fn, table=None):
    table = table if table is not None else harvest(ck, prog)
    b = prog.body(COMPLETION + fn) or ROOTS.get(fn)
    ck.anchor(b is not None, "completion function %s not found" % fn)
    labels = []
    for kind, ls in table.get(fn, []):
        for w in ls:
            if w not in labels:
                labels.append(w)
    ck.anchor(labels, "%s offers no constant label" % fn)
    return b, labels


def run(ck, prog):
    ck.explanation = (
        "Exhaustive comparison of finite tables read from the MIR of the current tree: the "
        "completion word lists (constants reaching CompletionItem::new_simple/new_snippet in "
        "CompletionContext::complete_*), the lexer's keyword and bang-operator string-match tables "
        "(Lexer::identifier / Lexer::bangoperator decision trees), the character predicate the "
        "operator scanner uses, and the dispatch table of grammar::statement::statement. The class "
        "completion clause is decided structurally (unfiltered iteration, one item per class, one "
        "placeholder per template argument; R20.8: the name map it walks is overwritten by every class "
        "statement with the freshly allocated record, so a forward-declared class is described by its latest "
        "declaration). Not decided: the completion context detection "
        "(which list is offered where).")
    ck.trusted = ["rustc MIR construction and constant evaluation", "core::str eq semantics"]
    ck.extra["exhaustive"] = True
    ck.rule("R20.1", "every offered keyword/type/boolean is a lexer keyword literal mapping to a non-Id kind")
    ck.rule("R20.2", "every offered bang operator is a literal of the lexer's operator table and is scannable")
    ck.rule("R20.3", "every operator literal the lexer accepts is offered")
    ck.rule("R20.4", "every file-level keyword offered dispatches to a statement parser, not to the error arm")
    ck.rule("R20.5", "class completion iterates all classes unfiltered; one item per class; one placeholder per template arg")
    ck.rule("R20.6", "with trigger character `!` the bang operators are offered on every path")
    ck.rule("R20.7", "error recovery at statement level never swallows a token that starts a statement")
    ck.rule("R20.8", "the class name map points at the latest declaration of each class")

    lx = lexer_tables(ck, prog)
    kw = lx["keywords"]          # literal -> kind
    ops = lx["bangops"]          # literal -> kind
    pred = lx["bang_pred"]
    dispatch = statement_dispatch(ck, prog)  # kind -> callee or 'ERROR'

    total = 0
    table = harvest(ck, prog)
    for need in ("complete_toplevel_keywords", "complete_primitive_types", "complete_primitive_values", "complete_bang_operators"):
        ck.anchor(need in table, "completion function %s offers nothing / not found" % need)
    # every function of the module that offers constant words (other than the bang operators and the class names)
    word_fns = [fn for fn in table if fn != "complete_bang_operators" and any(k != "Class" and ls for k, ls in table[fn])]
    for fn in sorted(word_fns, key=lambda f: (f not in ("complete_toplevel_keywords", "complete_primitive_types", "complete_primitive_values"), f)):
        b, labels = offered_labels(ck, prog, fn, table)
        for w in labels:
            total += 1
            k = kw.get(w)
            ck.ob("R20.1", "%s:%s" % (fn, w), k is not None and k != "Id",
                  "'%s' lexes as %s" % (w, k or "Id (not a keyword)"),
                  msg="completion offers '%s' (%s) but the lexer does not recognise it as a keyword" % (w, fn))
            if fn == "complete_toplevel_keywords" and k:
                d = dispatch.get(k)
                ck.ob("R20.4", "toplevel:%s" % w, d is not None and d != "ERROR",
                      "statement() dispatches %s to %s" % (k, d),
                      msg="file-level keyword '%s' is offered but statement() has no arm for %s" % (w, k))

    b, offered = offered_labels(ck, prog, "complete_bang_operators", table)
    for w in offered:
        total += 1
        inlex = w in ops
        scannable = all(pred(c) for c in w) if pred else False
        ck.ob("R20.2", "bang:%s" % w, inlex and scannable,
              "'!%s' lexes as %s" % (w, ops.get(w)),
              msg="completion offers '!%s' but the lexer %s" % (
                  w, "has no such operator" if not inlex else "cannot scan it (character predicate rejects part of it)"))
    for w in sorted(ops):
        total += 1
        ck.ob("R20.3", "lexer-op:%s" % w, w in offered, "'!%s' (%s) is offered" % (w, ops[w]),
              msg="the lexer accepts '!%s' (%s) but completion never offers it" % (w, ops[w]))
    ck.floor("R20.2", "offered bang operators", len(offered), 40)
    ck.floor("R20.3", "lexer bang operators", len(ops), 45)

    # R20.5 ------------------------------------------------------------------
    cb = prog.body(COMPLETION + "complete_classes")
    ck.anchor(cb is not None, "complete_classes not found")
    calls = [Body.callee(t) for _, t in cb.calls()]
    has_iter = any(c == "ide::symbol_map::SymbolMap::iter_class" for c in calls)
    ck.ob("R20.5", "iter_class", has_iter, "complete_classes iterates SymbolMap::iter_class",
          msg="complete_classes no longer iterates SymbolMap::iter_class")
    bad = [c for c in calls if c and ADAPTORS.search(c)]
    clos = prog.closures_of(cb.path)
    for c in clos:
        bad += [x for x in (Body.callee(t) for _, t in c.calls()) if x and ADAPTORS.search(x)]
    ck.ob("R20.5", "no-filter", not bad, "no filtering iterator adaptor in complete_classes",
          msg="complete_classes filters/limits the class or template-argument iteration: %s" % bad)
    allb = [cb]
    k_ = 0
    while k_ < len(allb):
        allb += prog.closures_of(allb[k_].path)
        k_ += 1
    has_targs = any(Body.callee(t) == "ide::symbol_map::record::Record::iter_template_arg" for x in allb for _, t in x.calls())
    ck.ob("R20.5", "iter_template_arg", has_targs, "placeholders are built from Record::iter_template_arg",
          msg="complete_classes does not enumerate the class's template arguments")
    # every iteration pushes exactly one item: in the loop over iter_class, no path from the Some arm
    # back to next() avoids Vec::push
    nexts = [i for i, t in cb.calls() if (Body.callee(t) or "").endswith("as std::iter::Iterator>::next")]
    pushes = cfg.blocks_calling(cb, lambda c: c == "std::vec::Vec::<T, A>::push")
    ok = bool(nexts) and bool(pushes)
    for n in nexts:
        # successors of the discriminant switch after next(): the Some arm is the one that can reach a push
        p = cfg.path_exists(cb, n, lambda x: x == n, avoid=pushes)
        if p is not None:
            ok = False
    if not ok and not pushes:
        # iterator form: iter_class().map(|id| CompletionItem::new_snippet(..)) handed to extend / collect
        for i, t in cb.calls():
            if not (Body.callee(t) or "").endswith("Iterator::map"):
                continue
            if not any(x[0] == "call" and x[1].endswith("SymbolMap::iter_class") for x in prov.origins(cb, t["args"][0])):
                continue
            for ga in (t["f"].get("args") or []):
                mb = prog.body(ga.get("closure")) if isinstance(ga, dict) and ga.get("closure") else None
                if mb is None:
                    continue
                ctors = cfg.blocks_calling(mb, lambda c: c in ITEM_CTORS)
                every = bool(ctors) and cfg.path_exists(mb, 0, lambda x: mb.term(x)["k"] == "return", avoid=ctors, include_src=True) is None
                sunk = any(re.search(r"(Extend<.*>>::extend|Vec::<T, A>::extend|Iterator::collect|Iterator::for_each)$", Body.callee(t2) or "") and
                           any(x[0] == "call" and x[2] == i for a in t2["args"] for x in prov.origins(cb, a))
                           for _, t2 in cb.calls())
                if every and sunk:
                    ok = True
    ck.ob("R20.5", "push-per-class", ok, "every loop iteration reaches Vec::push before the next class",
          msg="some iteration of the class loop skips the push (a class would not be offered)")
    # R20.8 ------------------------------------------------------------------
    # the records complete_classes describes are the ones the class name map points at; a class is usually declared
    # (`class X;`) before it is defined (`class X<int a> {..}`), each statement allocating its own record: the map must
    # point at the most recent one, i.e. every registration overwrites the entry with the freshly allocated id.
    _prov = prov
    ib = prog.body("ide::symbol_map::SymbolMap::iter_class")
    ck.anchor(ib is not None, "SymbolMap::iter_class not found")
    fields = set()
    for i, t in ib.calls():
        if "HashMap" in (Body.callee(t) or ""):
            for o in _prov.origins(ib, t["args"][0]):
                if o[0] == "arg" and o[1] == 1 and o[2]:
                    fields.add(o[2][0])
    ck.anchor(len(fields) == 1, "the map iter_class iterates could not be identified")
    field = next(iter(fields))
    nw = 0
    for pth, b in prog.bodies.items():
        if b.crate != "ide.rlib" or not pth.startswith("ide::symbol_map::SymbolMap::") or b.parent:
            continue
        writes = []
        for i, t in b.calls():
            c = Body.callee(t) or ""
            m = re.search(r"HashMap::<K, V, S, A>::(insert|entry|remove|clear|retain|get_mut|try_insert|extend|drain)$", c)
            if not m:
                continue
            if any(o[0] == "arg" and o[1] == 1 and o[2][:1] == (field,) for o in _prov.origins(b, t["args"][0])):
                writes.append((i, t, m.group(1)))
        if not writes:
            continue
        nw += 1
        ins = [(i, t) for i, t, k in writes if k == "insert"]
        other = sorted({k for _, _, k in writes if k != "insert"})
        fresh = bool(ins) and all(all(o[0] == "call" and str(o[1]).endswith("Arena::<T, A>::alloc") for o in _prov.origins(b, t["args"][2]))
                                  for _, t in ins)
        named = bool(ins) and all(all(o[0] == "arg" and o[2][-1:] == ("name",) for o in _prov.origins(b, t["args"][1])) for _, t in ins)
        ck.ob("R20.8", "latest-declaration:%s" % pth.rsplit("::", 1)[-1], fresh and named and not other,
              "`%s` is overwritten with the freshly allocated record under the record's own name" % field,
              msg="%s writes the class name map `%s` %s: a class that is declared and later defined (`class X; .. class X<int a> "
                  "{..}`) is completed from, and checked against, a record other than its latest declaration (wrong number of "
                  "template-argument placeholders)" % (pth, field, ("through %s (conditional / first-wins)" % ", ".join(other)) if other
                                                      else "with a value that is not the newly allocated record or a key that is not its name"))
    ck.floor("R20.8", "functions writing the class name map", nw, 1)

    # R20.7 ------------------------------------------------------------------
    # the statement dispatcher's error arm never consumes a token that starts a statement: evaluated by abstract
    # interpretation of whatever that arm calls, entered with the tokens that reach the arm
    import sys
    from .. import parser_ai
    by_tgt = {}
    for k, tgt in dispatch.items():
        by_tgt.setdefault(tgt, set()).add(k)
    default_tgt = max(by_tgt, key=lambda z: len(by_tgt[z]))        # the `_` arm: the target of most token kinds
    stmt_kw = {k for k, tgt in dispatch.items() if tgt != default_tgt}
    default_fns = {default_tgt: {k for k in by_tgt[default_tgt] if k != "Eof"}}
    ck.anchor(len(stmt_kw) >= 8, "statement() dispatch has lost its keyword arms")
    sb = prog.body("syntax::grammar::statement::statement")
    for tgt, entry in sorted(default_fns.items(), key=lambda z: str(z[0])):
        # resolve the arm's real callee (the table says ERROR for ParserBase::error*)
        callees = set()
        for i, t in sb.calls():
            c = Body.callee(t) or ""
            if (tgt == "ERROR" and "::error" in c) or c == tgt:
                callees.add(c)
        ck.anchor(bool(callees), "error arm of statement() calls nothing recognisable")
        for c in sorted(callees):
            sys.setrecursionlimit(10000)
            ai = parser_ai.ParserAI(prog)
            ai.token_log = []
            ai.run(c, la=frozenset(entry) - ai.trivia)
            eaten = set()
            for (fn, kinds) in ai.token_log:
                eaten |= set(kinds)
            swallowed = sorted(eaten & stmt_kw)
            ck.ob("R20.7", "error-arm:%s" % c, not swallowed and bool(ai.token_log),
                  "error arm %s consumes only tokens that start no statement (%d consumption sites evaluated)" % (c, len(ai.token_log)),
                  msg="the error arm of statement() (%s) can consume the statement keywords %s: a statement that follows a stray "
                      "token is swallowed into the error node instead of being parsed" % (c, swallowed))

    # R20.6 ------------------------------------------------------------------
    # whenever the request's trigger character is `!`, the bang operators are offered: from the true edge of the
    # comparison of the trigger argument, no path reaches the return without calling complete_bang_operators
    pass
    xb = prog.body("ide::handlers::completion::exec")
    ck.anchor(xb is not None, "completion::exec not found")
    cmp_sites = []
    for i, t in xb.calls():
        c = Body.callee(t) or ""
        if c.endswith("PartialEq>::eq") or c.endswith("PartialEq>::ne"):
            o = set()
            for a in t["args"]:
                o |= set(prov.origins(xb, a))
            if any(x[0] == "arg" and x[1] == 3 for x in o):
                cmp_sites.append((i, t, c.endswith("::ne")))
    ck.anchor(len(cmp_sites) >= 1, "completion::exec no longer compares its trigger-character argument")
    bang_blocks = cfg.blocks_calling(xb, lambda c: c == COMPLETION + "complete_bang_operators")
    ck.anchor(bool(bang_blocks), "completion::exec no longer calls complete_bang_operators")
    for i, t, negated in cmp_sites:
        sw = t["t"]
        st = xb.term(sw)
        ok = False
        why = "the comparison result is not branched on directly"
        if st["k"] == "switch":
            false_tgt = [tgt for val, tgt in st["arms"] if val == 0]
            true_tgt = st["else"] if false_tgt else None
            if negated:
                true_tgt = false_tgt[0] if false_tgt else None
            if true_tgt is not None:
                esc = cfg.path_exists(xb, true_tgt, lambda x: xb.term(x)["k"] == "return", avoid=bang_blocks, include_src=True)
                ok = esc is None
                why = "every path from the `== \"!\"` edge to the return calls complete_bang_operators" if ok else \
                    "a path from the `== \"!\"` edge reaches the return without complete_bang_operators (blocks %s)" % (esc,)
        ck.ob("R20.6", "bang-after-trigger:%d" % cmp_sites.index((i, t, negated)), ok, why,
              msg="completion::exec: with trigger character `!` the bang operators are not always offered: %s" % why)
    ck.count(total + len(kw) + len(ops) + len(dispatch))
