"""C20 Completion vocabulary is closed under the server's own lexer and parser.

Finite tables, extracted from the type-checked MIR and compared exhaustively."""
import re

from .. import paths, ref, cfg
from ..facts import Body
from ..common import lexer_tables, statement_dispatch

COMPLETION = "ide::handlers::completion::CompletionContext::"
ITEM_CTORS = ("ide::handlers::completion::CompletionItem::new_simple",
              "ide::handlers::completion::CompletionItem::new_snippet")
ADAPTORS = re.compile(r"std::iter::Iterator::(filter|filter_map|skip|take|step_by|skip_while|take_while|"
                      r"map_while|flat_map|dedup|nth)$")


def offered_labels(ck, prog, fn):
    b = prog.body(COMPLETION + fn)
    ck.anchor(b is not None, "completion function %s not found" % fn)
    labels = []
    dynamic = 0
    for i, t in b.calls():
        if Body.callee(t) in ITEM_CTORS:
            s = paths.const_str(t["args"][0])
            if s is not None:
                labels.append(s)
            else:
                dynamic += 1
    arrays = paths.const_arrays_in(b, lambda ty: "&str;" in ty or "&'static str;" in ty)
    seen = set()
    for c, lst in arrays:
        key = tuple(lst)
        if key in seen:
            continue
        seen.add(key)
        labels.extend(lst)
    ck.anchor(not (dynamic and not arrays), "%s builds labels from a non-constant source" % fn)
    ck.anchor(labels, "%s offers no constant label" % fn)
    return b, labels


def run(ck, prog):
    ck.explanation = (
        "Exhaustive comparison of finite tables read from the MIR of the current tree: the "
        "completion word lists (constants reaching CompletionItem::new_simple/new_snippet in "
        "CompletionContext::complete_*), the lexer's keyword and bang-operator string-match tables "
        "(Lexer::identifier / Lexer::bangoperator decision trees), the character predicate the "
        "operator scanner uses, and the dispatch table of grammar::statement::statement. The class "
        "completion clause is decided structurally (unfiltered iteration, one item per class, one "
        "placeholder per template argument). Not decided: the completion context detection "
        "(which list is offered where).")
    ck.trusted = ["rustc MIR construction and constant evaluation", "core::str eq semantics"]
    ck.extra["exhaustive"] = True
    ck.rule("R20.1", "every offered keyword/type/boolean is a lexer keyword literal mapping to a non-Id kind")
    ck.rule("R20.2", "every offered bang operator is a literal of the lexer's operator table and is scannable")
    ck.rule("R20.3", "every operator literal the lexer accepts is offered")
    ck.rule("R20.4", "every file-level keyword offered dispatches to a statement parser, not to the error arm")
    ck.rule("R20.5", "class completion iterates all classes unfiltered; one item per class; one placeholder per template arg")

    lx = lexer_tables(ck, prog)
    kw = lx["keywords"]          # literal -> kind
    ops = lx["bangops"]          # literal -> kind
    pred = lx["bang_pred"]
    dispatch = statement_dispatch(ck, prog)  # kind -> callee or 'ERROR'

    total = 0
    for fn in ("complete_toplevel_keywords", "complete_primitive_types", "complete_primitive_values"):
        b, labels = offered_labels(ck, prog, fn)
        for w in labels:
            total += 1
            k = kw.get(w)
            ck.ob("R20.1", "%s:%s" % (fn, w), k is not None and k != "Id",
                  "'%s' lexes as %s" % (w, k or "Id (not a keyword)"),
                  msg="completion offers '%s' (%s) but the lexer does not recognise it as a keyword" % (w, fn))
            if fn == "complete_toplevel_keywords" and k:
                d = dispatch.get(k)
                ck.ob("R20.4", "toplevel:%s" % w, d is not None and d != "ERROR",
                      "statement() dispatches %s to %s" % (k, d),
                      msg="file-level keyword '%s' is offered but statement() has no arm for %s" % (w, k))

    b, offered = offered_labels(ck, prog, "complete_bang_operators")
    for w in offered:
        total += 1
        inlex = w in ops
        scannable = all(pred(c) for c in w) if pred else False
        ck.ob("R20.2", "bang:%s" % w, inlex and scannable,
              "'!%s' lexes as %s" % (w, ops.get(w)),
              msg="completion offers '!%s' but the lexer %s" % (
                  w, "has no such operator" if not inlex else "cannot scan it (character predicate rejects part of it)"))
    for w in sorted(ops):
        total += 1
        ck.ob("R20.3", "lexer-op:%s" % w, w in offered, "'!%s' (%s) is offered" % (w, ops[w]),
              msg="the lexer accepts '!%s' (%s) but completion never offers it" % (w, ops[w]))
    ck.floor("R20.2", "offered bang operators", len(offered), 40)
    ck.floor("R20.3", "lexer bang operators", len(ops), 45)

    # R20.5 ------------------------------------------------------------------
    cb = prog.body(COMPLETION + "complete_classes")
    ck.anchor(cb is not None, "complete_classes not found")
    calls = [Body.callee(t) for _, t in cb.calls()]
    has_iter = any(c == "ide::symbol_map::SymbolMap::iter_class" for c in calls)
    ck.ob("R20.5", "iter_class", has_iter, "complete_classes iterates SymbolMap::iter_class",
          msg="complete_classes no longer iterates SymbolMap::iter_class")
    bad = [c for c in calls if c and ADAPTORS.search(c)]
    clos = prog.closures_of(cb.path)
    for c in clos:
        bad += [x for x in (Body.callee(t) for _, t in c.calls()) if x and ADAPTORS.search(x)]
    ck.ob("R20.5", "no-filter", not bad, "no filtering iterator adaptor in complete_classes",
          msg="complete_classes filters/limits the class or template-argument iteration: %s" % bad)
    has_targs = any(c == "ide::symbol_map::record::Record::iter_template_arg" for c in calls)
    ck.ob("R20.5", "iter_template_arg", has_targs, "placeholders are built from Record::iter_template_arg",
          msg="complete_classes does not enumerate the class's template arguments")
    # every iteration pushes exactly one item: in the loop over iter_class, no path from the Some arm
    # back to next() avoids Vec::push
    nexts = [i for i, t in cb.calls() if (Body.callee(t) or "").endswith("as std::iter::Iterator>::next")]
    pushes = cfg.blocks_calling(cb, lambda c: c == "std::vec::Vec::<T, A>::push")
    ok = bool(nexts) and bool(pushes)
    for n in nexts:
        # successors of the discriminant switch after next(): the Some arm is the one that can reach a push
        p = cfg.path_exists(cb, n, lambda x: x == n, avoid=pushes)
        if p is not None:
            ok = False
    ck.ob("R20.5", "push-per-class", ok, "every loop iteration reaches Vec::push before the next class",
          msg="some iteration of the class loop skips the push (a class would not be offered)")
    ck.count(total + len(kw) + len(ops) + len(dispatch))
