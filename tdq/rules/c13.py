"""C13 Diagnostics sound and complete on the core language — decidable necessary conditions."""
import re

from .. import cfg, prov, paths, brackets, ref
from ..facts import Body, op_local, op_const
from ..callgraph import callgraph

ERROR = "ide::index::context::IndexCtx::<'a>::error"
SYNTAXKIND = "syntax::syntax_kind::SyntaxKind"
BANG = "ide::index::bang_operator::<impl ide::index::Indexable for syntax::ast::BangOperator>::index"
LOOKUPS = re.compile(
    r"^ide::symbol_map::SymbolMap::(find_class|find_multiclass)$|^ide::index::context::IndexCtx::<'a>::resolve_id$|"
    r"^ide::symbol_map::typ::Type::find_field$")


def closure_capture_origins(prog, parent, closure_path, k):
    """origins (in the parent body) of the k-th captured variable of a closure built in `parent`"""
    out = set()
    for i, bb in enumerate(parent.blocks):
        for s in bb["s"]:
            rv = s.get("rv") or {}
            if "agg" in rv and isinstance(rv["agg"], dict) and rv["agg"].get("closure") == closure_path:
                if k < len(rv["ops"]):
                    out |= prov.origins(parent, rv["ops"][k])
    return out


def run(ck, prog):
    ck.explanation = (
        "Type-checker soundness/completeness is semantic and is not decided. Decided necessary conditions on the "
        "MIR: (R13.1) syntax errors are taken from the parse of every file of the source root (a loop over "
        "SourceRoot::iter_files whose element is both the parse argument and the file of the diagnostic); "
        "(R13.2) every failed name lookup in the indexer (class, multiclass, identifier, field access) reaches "
        "IndexCtx::error before the function returns, except the tabled NAME special case and field overrides "
        "(`let` of an unknown field, outside the property's fault list); (R13.3) for every bang operator the arity "
        "range handed to expect_values and the type-annotation requirement equal a reference table from the "
        "TableGen Programmer's Reference; (R13.4) every can_be_casted_to result guards a diagnostic, and "
        "check_template_args is called from every class-reference site; (R13.5) IndexCtx::error records "
        "unconditionally under the current file; (R13.6) at every can_be_casted_to site whose operands have a "
        "determinable role (type of an indexed value / declared type: a symbol's `typ`, an indexed ast::Type, a "
        "constant type) the receiver is not a declared type and the target is not a value's type; (R13.7) the "
        "variables bound by !foreach, !filter and !foldl are named by and typed from the operands the reference "
        "says (operand positions read off `values.get(k)` through the provenance chain); (R13.8) can_be_casted_to, "
        "evaluated from its MIR on every pair of field-less types, contains the reflexive pairs, `?` and Any in both "
        "positions, int<->bit, int<->bits, string<->code, and no pair of unrelated scalars; (R13.11) the list of "
        "template-argument values handed to check_template_args has exactly one entry per written argument (only "
        "length-preserving iterator adaptors / one push per iteration), so positional binding and the surplus count "
        "see every argument at its own position; (R13.12) every iteration of check_template_args' loop over the written "
        "arguments marks a parameter as given or reports a diagnostic (today's silent `continue` for an argument without an "
        "inferred type is a recorded finding: false \"value not specified\").")
    ck.trusted = ["reference arity table in tdq/ref.py (rows marked unsure are informational)"]
    for r, t in (("R13.1", "syntax errors come from every workspace file, paired with that file"),
                 ("R13.2", "failed lookups are reported"),
                 ("R13.3", "operator arity / annotation table equals the reference"),
                 ("R13.4", "type checks are wired to diagnostics; template-argument check at every class reference"),
                 ("R13.5", "IndexCtx::error always records, under the current file"),
                 ("R13.6", "cast checks run from the value's type to the declared type"),
                 ("R13.7", "bang-operator variables are typed by the operand the reference says"),
                 ("R13.8", "the cast relation contains the language's conversions and no unrelated scalar pair")):
        ck.rule(r, t)
    r131(ck, prog)
    r132(ck, prog)
    r133(ck, prog)
    r134(ck, prog)
    r135(ck, prog)


ADAPTORS_EACH = re.compile(r"Iterator::(map|flat_map|for_each|filter_map|flat_map|fold|try_for_each)$")


def module_members(prog, root):
    """root, its closures, and the private functions of its module it reaches (with their closures)"""
    mod = root.path.rsplit("::", 1)[0] + "::"
    out = {}
    st = [root]
    while st:
        b = st.pop()
        if b.path in out:
            continue
        out[b.path] = b
        st.extend(prog.closures_of(b.path))
        for _, t in b.calls():
            c = Body.callee(t) or ""
            cb = prog.body(c)
            if cb is not None and c.startswith(mod) and c not in out:
                st.append(cb)
    return out


def element_of_all_files(prog, members, body, operand, depth=0):
    """does the operand, for every way it gets its value, range over every element of SourceRoot::iter_files()?
    Followed through loop variables, parameters of closures handed to an iterator adaptor over iter_files(), and
    parameters of module-private helpers back to their call sites."""
    if depth > 6:
        return False
    os_ = prov.origins(body, operand)
    if not os_:
        return False
    for x in os_:
        ok = False
        if x[0] == "call" and re.search(r"Iterator>::next$", x[1]):
            io = prov.origins(body, body.term(x[2])["args"][0])
            in_loop = any(x[2] in bl for _, bl in cfg.loops(body))
            ok = in_loop and any(y[0] == "call" and y[1].endswith("SourceRoot::iter_files") for y in io)
        elif x[0] == "arg" and not [f for f in x[2] if not str(f).startswith("as:")]:
            k = x[1]
            if body.parent and k >= 2:
                # parameter of a closure: the closure must be handed to an each-element adaptor whose receiver is iter_files()
                parent = members.get(body.parent) or prog.body(body.parent)
                for _, t in parent.calls():
                    if ADAPTORS_EACH.search(Body.callee(t) or "") and any(ga.get("closure") == body.path for ga in (t["f"].get("args") or [])):
                        ro = prov.origins(parent, t["args"][0])
                        if any(y[0] == "call" and y[1].endswith("SourceRoot::iter_files") for y in ro):
                            ok = True
            elif body.parent and k == 1 and x[2]:
                pass
            elif not body.parent:
                # parameter of a helper: every call site in the module must pass an element of iter_files()
                sites = [(m, t) for m in members.values() for _, t in m.calls() if Body.callee(t) == body.path]
                ok = bool(sites) and all(len(t["args"]) >= k and element_of_all_files(prog, members, m, t["args"][k - 1], depth + 1)
                                         for m, t in sites)
        if not ok:
            return False
    return True


def r131(ck, prog):
    b = prog.body("ide::handlers::diagnostics::exec")
    ck.anchor(b is not None, "diagnostics::exec not found")
    members = module_members(prog, b)
    errs = [(m, i, t) for m in members.values() for i, t in m.calls() if Body.callee(t) == "syntax::Parse::errors"]
    ck.anchor(errs, "diagnostics::exec (and the helpers of its module) do not read Parse::errors")
    for m, i, t in errs:
        po = prov.origins(m, t["args"][0])
        parses = [x for x in po if x[0] == "call" and x[1].endswith("::parse")]
        allf = bool(parses) and all(element_of_all_files(prog, members, m, m.term(x[2])["args"][-1]) for x in parses)
        ck.ob("R13.1", "all-files", allf,
              "Parse::errors is read for every element of SourceRoot::iter_files()",
              msg="diagnostics::exec does not take syntax errors from every file of the source root (Parse::errors read in %s): a "
                  "syntax error in an included file is never reported" % m.path)
        # pairing: FileRange::new(file, err.range) where file is the very value whose parse produced the errors
        file_o = set()
        for x in parses:
            file_o |= prov.origins(m, m.term(x[2])["args"][-1])
        paired = False
        for c in [m] + prog.closures_of(m.path):
            for j, ct in c.calls():
                if Body.callee(ct) == "ide::file_system::FileRange::new":
                    fo = prov.origins(c, ct["args"][0])
                    ro = prov.origins(c, ct["args"][1])
                    cap = set()
                    if c is m:
                        cap = set(fo)
                    for x in fo:
                        if c is not m and x[0] == "arg" and x[1] == 1 and x[2]:
                            k = int(x[2][0]) if x[2][0].isdigit() else None
                            if k is not None:
                                cap |= closure_capture_origins(prog, m, c.path, k)
                    same = bool(cap) and cap == file_o
                    # the error's own `range` field: of the closure's parameter (map form) or of the loop element (for form)
                    rng = bool(ro) and all((x[0] == "arg" and x[2][-1:] == ("range",)) or
                                           (x[0] == "call" and str(x[1]).endswith("Iterator>::next") and x[3][-1:] == ("range",))
                                           for x in ro)
                    paired = paired or (same and rng)
        ck.ob("R13.1", "paired", paired, "each syntax error is filed under the file whose parse produced it, with the error's own range",
              msg="diagnostics::exec files a syntax error under a file other than the one whose parse produced it")


def r132(ck, prog):
    n = 0
    exceptions = {
        ("<syntax::ast::SimpleValue as ide::index::Indexable>::index", "resolve_id"):
            "the implicit NAME variable resolves to no symbol by design (handled on the same edge)",
    }
    for b in prog.bodies.values():
        if b.crate != "ide.rlib" or not (b.path.startswith("ide::index") or " as ide::index::Indexable>" in b.path):
            continue
        tests = brackets.option_tests(b, prog)
        errs = cfg.blocks_calling(b, lambda c: c == ERROR)
        per = {}
        for t in tests:
            c = t["src_callee"] or ""
            if not LOOKUPS.search(c):
                continue
            n += 1
            short = c.rsplit("::", 1)[-1]
            per[short] = per.get(short, 0) + 1
            p = cfg.path_exists(b, t["none_target"], lambda x: b.term(x)["k"] == "return", avoid=errs, include_src=True)
            silent = p is not None
            key = "lookup:%s:%s#%d" % (b.path, short, per[short])
            if silent and (b.path, short) in exceptions:
                # the NAME case: the silent path must be the one that compares the name with "NAME"
                has_name_cmp = any(paths.const_str(a) == "NAME" for _, tt in b.calls() for a in tt["args"]) or \
                    any('"NAME"' in (((st.get("rv") or {}).get("use") or {}).get("const") or {}).get("val", "")
                        for bb in b.blocks for st in bb["s"] if isinstance((st.get("rv") or {}).get("use"), dict))
                ck.ob("R13.2", key, has_name_cmp, exceptions[(b.path, short)],
                      msg="%s: failed %s is silent and the NAME special case is gone" % (b.path, short))
                continue
            ck.ob("R13.2", key, not silent, "the failed-lookup edge of %s reaches ctx.error on every path" % short,
                  msg="%s: when %s fails the function can return without a diagnostic (undefined name accepted silently) [%s]" % (
                      b.path, short, b.where(t["bb"])))
    ck.floor("R13.2", "name lookups with a tested failure edge", n, 6)
    ck.info("FieldLet::index: `let` of an unknown field returns silently (record.find_field(..)?): outside the property's "
            "fault list, not claimed")


def bang_arms(prog, b):
    """SyntaxKind variant -> set of blocks that belong to that match arm only"""
    sk = {v["discr"]: v["name"] for v in prog.adts[SYNTAXKIND]["variants"]}
    best = None
    for i, bb in enumerate(b.blocks):
        t = bb["term"]
        if t["k"] == "switch" and len(t["arms"]) > 20:
            c = paths.switch_cond(b, prog, i)
            if c.kind == "discr" and c.data[1] == SYNTAXKIND:
                best = (i, t)
    if best is None:
        return None
    i, t = best
    entry = {}
    for val, tgt in t["arms"]:
        entry.setdefault(tgt, []).append(sk.get(val))
    entries = set(entry)
    out = {}
    for tgt, kinds in entry.items():
        reach = b.reachable(tgt, avoid=entries - {tgt})
        out[tuple(kinds)] = reach
    # blocks common to all arms (join / epilogue) are not arm-specific
    common = set.intersection(*out.values()) if out else set()
    return {k: v - common for k, v in out.items()}, t


def range_of_expect_values(prog, b, blk):
    """(min, max|None) from the range operand of an expect_values call"""
    t = b.term(blk)
    ga = [a.get("ty") for a in (t["f"].get("args") or [])]
    arg = t["args"][2]
    l = op_local(arg)
    d = b.single_def(l) if l is not None else None
    c = op_const(arg)
    if c is not None:
        m = re.findall(r"(\d+)_usize", c["val"])
        if "RangeFrom" in c["ty"] and m:
            return int(m[0]), None
        if "RangeInclusive" in c["ty"] and len(m) >= 2:
            return int(m[0]), int(m[1])
    if d and d[0] == "stmt" and "agg" in d[3]:
        k = d[3]["agg"]
        if isinstance(k, dict) and "RangeFrom" in (k.get("adt") or ""):
            cc = op_const(d[3]["ops"][0])
            return (cc["int"], None) if cc and "int" in cc else None
    if d and d[0] == "call" and (Body.callee(d[2]) or "").endswith("RangeInclusive::<Idx>::new"):
        a0, a1 = op_const(d[2]["args"][0]), op_const(d[2]["args"][1])
        if a0 and a1 and "int" in a0 and "int" in a1:
            return a0["int"], a1["int"]
    if d and d[0] == "stmt" and "use" in d[3]:
        c = op_const(d[3]["use"])
        if c is not None:
            m = re.findall(r"(\d+)_usize", c["val"])
            if "RangeFrom" in c["ty"] and m:
                return int(m[0]), None
            if "RangeInclusive" in c["ty"] and len(m) >= 2:
                return int(m[0]), int(m[1])
    return None


def r133(ck, prog):
    b = prog.body(BANG)
    ck.anchor(b is not None, "BangOperator::index not found")
    res = bang_arms(prog, b)
    ck.anchor(res is not None, "the match over operator kinds was not found in BangOperator::index")
    arms, sw = res
    table = {}
    for kinds, blocks in arms.items():
        ev = [i for i in blocks if b.term(i)["k"] == "call" and (Body.callee(b.term(i)) or "").endswith("common::expect_values")]
        ann = set()
        for i in blocks:
            if b.term(i)["k"] != "call":
                continue
            c = Body.callee(b.term(i)) or ""
            if c.endswith("common::expect_type_annotation"):
                ann.add("req")
            elif c.endswith("common::unexpect_type_annotation"):
                ann.add("no")
            elif c == "syntax::ast::BangOperator::r#type":
                ann.add("opt")
        rng = None
        if len(ev) >= 1:
            rs = {range_of_expect_values(prog, b, i) for i in ev}
            rng = next(iter(rs)) if len(rs) == 1 else None
        a = "req" if "req" in ann else "no" if "no" in ann else "opt" if "opt" in ann else "none"
        for k in kinds:
            table[k] = (rng, a)
    ck.extra["arity_table_rows"] = len(table)
    for k, (mn, mx, ann) in sorted(ref.BANG_ARITY.items()):
        got = table.get(k)
        if got is None:
            ck.ob("R13.3", "arity:%s" % k, False, msg="operator kind %s has no arm in the indexer's match (no arity check at all)" % k)
            continue
        rng, a = got
        ok = rng == (mn, mx) and a == ann
        if k in ref.UNSURE_ARITY and not ok:
            ck.info("arity of %s is %s/%s here, my reference says %s/%s (row marked unsure)" % (k, rng, a, (mn, mx), ann))
            ck.ob("R13.3", "arity:%s" % k, True, "row marked unsure in the reference: informational", nontrivial=False)
            continue
        ck.ob("R13.3", "arity:%s" % k, ok, "%s takes %s arguments, annotation %s" % (k, rng, a),
              msg="operator %s is checked for %s arguments / annotation '%s'; the reference says %s / '%s'" % (k, rng, a, (mn, mx), ann))
    ck.floor("R13.3", "operator rows extracted", len(table), 50)


def r134(ck, prog):
    CAST = "ide::symbol_map::typ::Type::can_be_casted_to"
    n = 0
    for b in prog.bodies.values():
        if b.crate != "ide.rlib" or not (b.path.startswith("ide::index") or " as ide::index::Indexable>" in b.path):
            continue
        errs = cfg.blocks_calling(b, lambda c: c == ERROR)
        per = 0
        for i, t in b.calls():
            if Body.callee(t) != CAST:
                continue
            n += 1
            per += 1
            # the bool result must decide whether ctx.error is reached: some switch on (a value derived from) it
            sw = t["t"]
            hops = 0
            while sw is not None and b.term(sw)["k"] != "switch" and hops < 3 and len(b.succ(sw)) == 1:
                sw = b.succ(sw)[0]
                hops += 1
            ok = False
            if sw is not None and b.term(sw)["k"] == "switch":
                succs = b.succ(sw)
                reach = [bool(b.reachable(s, avoid={sw}) & errs) for s in succs]
                # within a disjunction (a || b || c) the error is reached from the "all false" side only
                ok = any(reach) and not all(
                    cfg.path_exists(b, s, lambda x: b.term(x)["k"] == "return", avoid=errs, include_src=True) is None for s in succs)
            ck.ob("R13.4", "cast:%s#%d" % (b.path, per), ok,
                  "can_be_casted_to decides whether a diagnostic is emitted",
                  msg="%s: the result of a can_be_casted_to check no longer controls a diagnostic [%s]" % (b.path, b.where(i)))
    ck.floor("R13.4", "can_be_casted_to call sites", n, 30)
    # direction of the check: `value_type.can_be_casted_to(declared_type)`. The relation is symmetric on scalars but not on
    # records (a subclass value fits a base-class slot, not the reverse) nor below list<..>: a reversed call accepts
    # ill-typed programs and rejects well-typed ones.
    def role(o):
        if o[0] == "call":
            m = re.search(r"^<syntax::ast::(\w+) as ide::index::Indexable>::index$", str(o[1]))
            if m:
                return "declared" if m.group(1) == "Type" else "value"
            if len(o) > 3 and o[3] and str(o[3][-1]) == "typ":
                return "declared"
        if o[0] == "const" and "typ::Type::" in str(o[1]):
            return "declared"
        return None
    nd = 0
    per = {}
    for b, i, t in prog.call_sites(lambda c: c == CAST):
        if b.crate != "ide.rlib" or b.path == CAST:
            continue
        per[b.path] = per.get(b.path, 0) + 1
        rr = {role(o) for o in prov.origins(b, t["args"][0])} - {None}
        ar = {role(o) for o in prov.origins(b, t["args"][2])} - {None}
        if not rr and not ar:
            continue
        nd += 1
        ok = "declared" not in rr and "value" not in ar
        ck.ob("R13.6", "direction:%s#%d" % (b.path, per[b.path]), ok,
              "receiver %s, argument %s" % (sorted(rr) or ["(undetermined)"], sorted(ar) or ["(undetermined)"]),
              msg="%s: can_be_casted_to is called on %s with %s as target [%s] — the check runs in the direction "
                  "declared -> value: a base-class value is accepted where a subclass is required and a subclass value is "
                  "rejected where its base class is declared" % (
                      b.path, "a declared type" if "declared" in rr else "a type of undetermined role",
                      "a value's type" if "value" in ar else "a type of undetermined role", b.where(i)))
    ck.floor("R13.6", "can_be_casted_to sites with a determinable role", nd, 40)
    r137(ck, prog)
    r138(ck, prog)
    r1310(ck, prog)
    r1311(ck, prog)
    r1312(ck, prog)
    # diagnostics are filed under the file being walked: the include stack is a stack and is balanced
    from .c05 import file_stack_rule
    ck.rule("R13.9", "diagnostics are attributed to the file being walked (include stack balanced, a real stack)")
    file_stack_rule(ck, prog, "R13.9")


def r1310(ck, prog):
    """the subclass test behind record casts looks at every ancestor: each loop of Record::is_subclass_of is left only
    when its iterator / work list is exhausted or with the answer `true` (a `break` on an already visited class makes a
    diamond `class Both : Tag, Left, Right` stop before it reaches Tag: false "incompatible type" diagnostics)"""
    ck.rule("R13.10", "is_subclass_of examines every ancestor before answering false")
    b = prog.body("ide::symbol_map::record::Record::is_subclass_of")
    ck.anchor(b is not None, "Record::is_subclass_of not found")
    tests = brackets.option_tests(b, prog)
    n = 0
    for h, bl in cfg.loops(b):
        inl = set(bl)
        for u in bl:
            for v in b.succ(u):
                if v in inl or b.is_cleanup(v) or b.term(v)["k"] == "unreachable":
                    continue
                n += 1
                exhausted = any(t["bb"] == u and t["none_target"] == v and
                                re.search(r"Iterator>::next$|::pop$|::pop_front$|::pop_back$", t["src_callee"] or "") for t in tests)
                only_true = True
                for pth in paths.enum_paths(b, prog, start=v, limit=4000):
                    if pth.end not in ("return",):
                        if pth.end == "loop":
                            continue
                        only_true = False
                        continue
                    d = paths.describe_result(prog, pth.ret)
                    if not (d[0] == "const" and str(d[1]) == "true"):
                        only_true = False
                ck.ob("R13.10", "loop-exit:%d" % n, exhausted or only_true,
                      "the loop is left %s" % ("when its work list is exhausted" if exhausted else "with the answer true"),
                      msg="Record::is_subclass_of leaves its walk over the ancestors early without the answer `true` [%s]: "
                          "ancestors that have not been looked at yet are never examined, so a subclass value is reported as "
                          "incompatible with its base class" % b.where(u))
    rec = [i for i, t in b.calls() if Body.callee(t) == b.path]
    # iterator form: `parents.iter().any(|p| .. record(p).is_subclass_of(..))` - std's any() looks at every element until
    # the closure answers true; the recursion then sits in the closure
    for cb_ in prog.closures_of(b.path):
        if any(Body.callee(t) == b.path for _, t in cb_.calls()) and \
                any(re.search(r"Iterator>?::(any|find|find_map|position|all)$", Body.callee(t) or "") for _, t in b.calls()):
            rec.append(-1)
    ck.ob("R13.10", "walks-ancestors", bool(rec) or n > 0, "the function recurses into / iterates over the parents",
          msg="Record::is_subclass_of neither recurses nor loops over the parents", nontrivial=False)
    if not rec or n:
        ck.floor("R13.10", "loop exits of is_subclass_of", n, 2)



LEN_PRESERVING = {"map", "enumerate", "inspect", "rev", "by_ref", "cloned", "copied", "collect", "into_iter", "iter",
                  "peekable", "fuse", "size_hint", "next", "for_each", "fold", "try_for_each"}


def r1311(ck, prog):
    """positional template arguments keep their position: check_template_args binds the k-th written argument to the
    k-th template parameter and compares the number of written arguments with the number of parameters, so the list
    <ArgValueList as Indexable>::index hands over must have exactly one entry per written argument (an argument whose
    type cannot be inferred is a `None` entry, not a missing one). Decided on the MIR of that function: every iterator
    adaptor between arg_values() and the collected list is length preserving (no filter / filter_map / flatten / take /
    skip ..), and in loop form every iteration that obtained an argument pushes an entry."""
    ck.rule("R13.11", "one entry per written template argument reaches check_template_args (positions are preserved)")
    b = None
    for pth, bb_ in prog.bodies.items():
        if pth.endswith("ArgValueList as ide::index::Indexable>::index") or pth.endswith("ArgValueList as index::Indexable>::index"):
            b = bb_
    ck.anchor(b is not None, "<ArgValueList as Indexable>::index not found")
    src = [i for i, t in b.calls() if (Body.callee(t) or "").endswith("ArgValueList::arg_values")]
    ck.anchor(bool(src), "<ArgValueList as Indexable>::index no longer enumerates arg_values()")
    n = 0
    for i, t in b.calls():
        c = t["f"].get("decl") or Body.callee(t) or ""
        m = re.search(r"iter::(?:traits::iterator::)?Iterator::(\w+)$", c) or re.search(r"Itertools::(\w+)$", c)
        if not m:
            continue
        n += 1
        ck.ob("R13.11", "adaptor:%s" % m.group(1), m.group(1) in LEN_PRESERVING,
              "Iterator::%s keeps one element per written argument" % m.group(1),
              msg="<ArgValueList as Indexable>::index builds the argument list through Iterator::%s, which can drop or add "
                  "elements [%s]: check_template_args binds the k-th entry to the k-th template parameter and counts the "
                  "entries, so every argument after a dropped one is checked against the wrong parameter and surplus "
                  "arguments go unreported" % (m.group(1), b.where(i)))
    # loop form: an iteration that obtained an argument reaches the loop head again only through a push
    tests = brackets.option_tests(b, prog)
    for h, bl in cfg.loops(b):
        inl = set(bl)
        nxt = [t for t in tests if t["bb"] in inl and re.search(r"Iterator>?::next$", t["src_callee"] or "")]
        if not nxt:
            continue
        pushes = {u for u in bl if b.term(u)["k"] == "call" and re.search(r"Vec::<.*>::push$|Vec<.*>::push$|::push$", Body.callee(b.term(u)) or "")}
        for t in nxt:
            n += 1
            skips = cfg.path_exists(b, t["some_target"], lambda v: v == h, avoid=frozenset(pushes) | (frozenset(range(len(b.blocks))) - inl),
                                    include_src=True)
            ck.ob("R13.11", "loop:one-push-per-argument", bool(pushes) and not skips,
                  "every iteration that obtained an argument pushes one entry",
                  msg="<ArgValueList as Indexable>::index has an iteration over the written arguments that can go on to the "
                      "next argument without adding an entry to the list [%s]: the arguments after it shift one position "
                      "to the left in check_template_args" % b.where(t["bb"]))
    ck.floor("R13.11", "adaptors / loop iterations of the argument list", n, 2)
    # the consumer binds by position: check_template_args must index the parameters with the position of the entry
    cb = prog.body("ide::index::check_template_args")
    ck.anchor(cb is not None, "check_template_args not found")



def r1312(ck, prog):
    """a template argument that is written is never reported as missing: in check_template_args every iteration of the
    loop over the written arguments either marks a parameter as given (removes it from the set the "value not specified"
    diagnostics are produced from) or reports a diagnostic of its own. An iteration that passes an argument over silently
    leaves its parameter in that set, and a required parameter is then reported as not specified although it is.
    Not counted as silent: the None arm of a positional look-up `template_args.get(idx)` - an argument beyond the last
    parameter is a surplus argument, reported by the count guard in front of the loop (obligation surplus-guard; R13.11
    keeps the count exact)."""
    ck.rule("R13.12", "every written template argument marks its parameter as given or is diagnosed")
    b = prog.body("ide::index::check_template_args")
    ck.anchor(b is not None, "check_template_args not found")
    tests = brackets.option_tests(b, prog)
    n = 0
    for h, bl in cfg.loops(b):
        inl = set(bl)
        marks = {u for u in bl if b.term(u)["k"] == "call" and re.search(r"Hash(Set|Map)::<.*>::remove$|BTree(Set|Map)::<.*>::remove$",
                                                                         Body.callee(b.term(u)) or "")}
        if not marks:
            continue
        errs = {u for u in bl if b.term(u)["k"] == "call" and (Body.callee(b.term(u)) or "").endswith("IndexCtx::<'a>::error")}
        pruned = {(t["bb"], t["none_target"]) for t in tests
                  if t["bb"] in inl and re.search(r"(slice::<impl \[T\]>|Vec::<T(, A)?>)::get$", t["src_callee"] or "")}
        avoid = marks | errs

        def reach(src, dst, include_src):
            seen_, todo = set(), [src]
            first = True
            while todo:
                u = todo.pop()
                if u == dst and not (first and not include_src):
                    return True
                first = False
                if u in seen_ and u != src:
                    continue
                seen_.add(u)
                if u in avoid or u not in inl:
                    continue
                for v in b.succ(u):
                    if (u, v) in pruned or b.is_cleanup(v):
                        continue
                    if v == dst:
                        return True
                    if v not in seen_:
                        todo.append(v)
            return False
        for t in tests:
            if t["bb"] not in inl or not re.search(r"Iterator>?::next$", t["src_callee"] or ""):
                continue
            n += 1
            st = t["some_target"]
            silent = st not in avoid and reach(st, h, True)
            # the silent region (blocks on some silent path) is named by the calls it contains, so that a second, different
            # silent path is not mistaken for the recorded one
            region = []
            if silent:
                for u in sorted(inl - avoid - {h}):
                    if (u == st or reach(st, u, True)) and reach(u, h, False):
                        region.append(u)
            calls_ = sorted({(Body.callee(b.term(u)) or "?").rsplit("::", 1)[-1] for u in region if b.term(u)["k"] == "call"} - {"drop", "drop_in_place"})
            key = "given-marks:check_template_args" if not calls_ else "given-marks:check_template_args:via:" + "+".join(calls_)
            ck.ob("R13.12", key, not silent,
                  "every iteration marks a parameter as given or reports a diagnostic",
                  msg="check_template_args passes a written template argument over without marking its parameter as given and "
                      "without a diagnostic (an argument whose type cannot be inferred, e.g. `Base<!cond(..)>`): a required "
                      "parameter is then reported as \"value not specified\" although the value is there [%s]" % b.where(t["bb"]))
            if pruned:
                allerr = {u for u in range(len(b.blocks)) if b.term(u)["k"] == "call" and (Body.callee(b.term(u)) or "").endswith("IndexCtx::<'a>::error")}
                before = any(u not in inl and cfg.path_exists(b, 0, lambda v, u=u: v == u, avoid=frozenset({h}), include_src=True) for u in allerr)
                ck.ob("R13.12", "surplus-guard", before, "surplus arguments are diagnosed in front of the loop", nontrivial=False,
                      msg="check_template_args looks parameters up by position with get(idx) but no diagnostic in front of the loop "
                          "reports arguments beyond the last parameter")
    ck.floor("R13.12", "loops over the written arguments", n, 1)


def r138(ck, prog):
    """the cast relation on field-less types, read off can_be_casted_to by evaluating its MIR on every pair of variants:
    it must contain the pairs the language defines (reflexive; `?` and the empty-list element type `Any` fit everything
    and everything fits them; int <-> bit, int <-> bits<n>, string <-> code) and must not contain a pair of unrelated
    scalar types (a type-incompatible initialiser is then reported)."""
    from .. import mirexec
    CAST = "ide::symbol_map::typ::Type::can_be_casted_to"
    TY = "ide::symbol_map::typ::Type"
    b = prog.body(CAST)
    ck.anchor(b is not None and TY in prog.adts, "Type::can_be_casted_to / Type not found")
    variants = prog.adts[TY]["variants"]
    idx = {v["name"]: k for k, v in enumerate(variants)}
    need = ("Bit", "Int", "String", "Code", "Dag", "Uninitialized", "Any", "Bits")
    ck.anchor(all(n in idx for n in need), "Type has lost one of the variants %s" % (need,))

    def val(name):
        fields = [("int", 8)] if name == "Bits" else []
        return ("variant", name, idx[name], fields)

    def oracle(fr, callee, args, t):
        if re.search(r"PartialEq(<[^>]*>)?( for [^>]*)?>::(eq|ne)$|PartialEq::(eq|ne)$", callee):
            vs = []
            for a in args[:2]:
                n = 0
                while a is not None and a[0] == "ref" and n < 4:
                    a = fr.read_place(a[1])
                    n += 1
                if a is None:
                    raise mirexec.Unsupported("comparison of an unknown value")
                vs.append(a)
            same = vs[0] == vs[1]
            return ("int", 1 if same == callee.endswith("::eq") else 0)
        raise mirexec.Unsupported("call to %s" % callee)

    def cast(a, c):
        fr = mirexec.Frame(b, oracle)
        fr.locals[1] = val(a)
        fr.locals[2] = ("self", ("symbol_map",))
        fr.locals[3] = val(c)
        out = fr.run(0)
        if out[0] != "return" or out[1] is None or out[1][0] != "int":
            raise mirexec.Unsupported("result %s" % (out,))
        return bool(out[1][1])
    scalars = ("Bit", "Int", "String", "Code", "Dag")
    both = {frozenset(("Int", "Bit")), frozenset(("Int", "Bits")), frozenset(("String", "Code"))}
    n = 0
    for a in need:
        for c in need:
            want = None
            if a == c or a in ("Uninitialized", "Any") or c in ("Uninitialized", "Any") or frozenset((a, c)) in both:
                want = True
            elif a in scalars and c in scalars:
                want = False
            if want is None:
                continue
            n += 1
            try:
                got = cast(a, c)
            except mirexec.Unsupported as e:
                ck.anchor(False, "can_be_casted_to could not be evaluated on (%s, %s): %s" % (a, c, e))
            ck.ob("R13.8", "cast:%s->%s" % (a, c), got == want, "%s %s %s" % (a, "fits" if want else "does not fit", c),
                  msg="Type::can_be_casted_to: a value of type %s %s a slot of type %s, the language says it %s — %s" % (
                      a, "fits" if got else "does not fit", c, "does" if want else "does not",
                      "a well-formed program gets a diagnostic" if want else "an incompatible initialiser is not reported"))
    ck.floor("R13.8", "variant pairs of the cast relation evaluated", n, 40)


def _deep(prog, b, op, depth=0, seen=frozenset()):
    """where a value ultimately comes from, through calls that hand their receiver on: -> set of (kind, detail, chain);
    kind 'pos' = the k-th operand of the bang operator (`values.get(k)` / `values.first()`)"""
    out = set()
    for o in prov.origins(b, op):
        if o[0] != "call":
            out.add((o[0], str(o[1:])[:60], ()))
            continue
        name, bb = str(o[1]), o[2]
        t = b.term(bb)
        if re.search(r"<impl \[T\]>::(get|first)$", name):
            idx = 0
            if name.endswith("get"):
                idx = (t["args"][1].get("const") or {}).get("int")
            out.add(("pos", idx, ()))
            continue
        if (name, bb) in seen or depth > 14 or not t["args"]:
            out.add(("opaque", name, ()))
            continue
        extra = ()
        for ga in (t["f"].get("args") or []):
            if ga.get("closure") and prog.body(ga["closure"]) is not None:
                extra = tuple(sorted({(Body.callee(tt) or "").rsplit("::", 1)[-1] for _, tt in prog.body(ga["closure"]).calls()}))
        for s_ in _deep(prog, b, t["args"][0], depth + 1, seen | {(name, bb)}):
            out.add((s_[0], s_[1], s_[2] + (name.rsplit("::", 1)[-1],) + extra))
    return out


def r137(ck, prog):
    """the variables a bang operator binds: which operand names them and which operand types them.
    Reference (TableGen Programmer's Reference, 1.10.2): !foreach(var, sequence, expr) and !filter(var, list, predicate) bind
    operand 0 to the element type of operand 1; !foldl(init, list, acc, var, expr) binds operand 2 (acc) to the type of
    operand 0 (init) and operand 3 (var) to the element type of operand 1 (list)."""
    allowed = {(0, 1, True): "!foreach / !filter variable : element of the sequence",
               (2, 0, False): "!foldl accumulator : type of init",
               (3, 1, True): "!foldl variable : element of the list"}
    found = set()
    n = 0
    for b, i, t in prog.call_sites(lambda c: c == "ide::symbol_map::variable::Variable::new"):
        if "BangOperator" not in b.path:
            continue
        cb = prog.body(Body.callee(t))
        names = [cb.local_name(k) for k in range(1, cb.argc + 1)]
        if "name" not in names or "typ" not in names:
            continue
        nm = _deep(prog, b, t["args"][names.index("name")])
        ty = _deep(prog, b, t["args"][names.index("typ")])
        if len(nm) != 1 or len(ty) != 1 or next(iter(nm))[0] != "pos" or next(iter(ty))[0] != "pos":
            ck.info("operator variable at %s: operands not determinable (%s / %s)" % (b.where(i), sorted(nm)[:2], sorted(ty)[:2]))
            continue
        n += 1
        (_, npos, _), (_, tpos, chain) = next(iter(nm)), next(iter(ty))
        shape = (npos, tpos, "element_typ" in chain)
        found.add(shape)
        ck.ob("R13.7", "operator-variable:%s:%s" % (npos, b.line(i) and n), shape in allowed,
              allowed.get(shape, "operand %s typed by operand %s" % (npos, tpos)),
              msg="%s: the variable named by operand %s of a bang operator is given the %s of operand %s [%s]; the reference "
                  "binds %s — a well-typed body is then reported as ill-typed (or an ill-typed one accepted)" % (
                      b.path, npos, "element type" if shape[2] else "type", tpos, b.where(i),
                      "; ".join("operand %d to the %s of operand %d" % (k[0], "element type" if k[2] else "type", k[1]) for k in sorted(allowed))))
    ck.ob("R13.7", "operator-variable-shapes", found >= set(allowed) or n == 0, "all three binding shapes are present",
          msg="a bang-operator variable binding of the reference is missing: %s" % sorted(set(allowed) - found), nontrivial=False)
    ck.floor("R13.7", "bang-operator variable bindings", n, 4)
    # every class-reference site reaches check_template_args (directly or through helpers of the indexer)
    from ..callgraph import callgraph
    cg = callgraph(prog)
    want = {"ide::index::resolve_class_ref_as_class", "ide::index::resolve_class_ref_as_multiclass",
            "<syntax::ast::SimpleValue as ide::index::Indexable>::index"}
    callers = set()
    for w in want:
        if prog.body(w) is not None and "ide::index::check_template_args" in cg.reachable([w], kinds=("call",)):
            callers.add(w)
    ck.ob("R13.4", "template-arg-check-sites", want <= callers, "check_template_args is reached from %s" % sorted(callers),
          msg="check_template_args is no longer reached from every class-reference site (missing: %s)" % sorted(want - callers))
    # every template argument without a default is checked: the 'unsolved' loop reports for each element
    cb = prog.body("ide::index::check_template_args")
    ck.anchor(cb is not None, "check_template_args not found")
    errs = cfg.blocks_calling(cb, lambda c: c == ERROR)
    loops = cfg.loops(cb)
    # no loop over arguments is left from the middle of its body (a `break`/early return would leave
    # later arguments unchecked): exits only through the block that tests Iterator::next()
    ok = True
    detail = ""
    for h, bl in loops:
        nxt = [i for i in bl if cb.term(i)["k"] == "call" and re.search(r"Iterator>::next$", Body.callee(cb.term(i)) or "")]
        if not nxt:
            continue
        tests = {cb.term(n)["t"] for n in nxt}
        for i in bl:
            for s in cb.succ(i):
                if s in bl or cb.term(s)["k"] == "unreachable":
                    continue
                if i not in tests:
                    ok = False
                    detail = cb.where(i)
    ck.ob("R13.4", "template-arg-loops-complete", ok, "the loops in check_template_args visit every element",
          msg="check_template_args leaves one of its loops early (%s): later template arguments are never checked" % detail)


def leads_to_return_after_error(cb, i, s, errs):
    # an early `return` right after reporting (too many arguments) is fine; a bare break is not
    return i in errs or any(p in errs for p in cb.pred(i))


def r135(ck, prog):
    b = prog.body(ERROR)
    ck.anchor(b is not None, "IndexCtx::error not found")
    pushes = cfg.blocks_calling(b, lambda c: c == "std::vec::Vec::<T, A>::push")
    p = cfg.path_exists(b, 0, lambda x: b.term(x)["k"] == "return", avoid=pushes, include_src=True)
    ok = p is None and bool(pushes)
    if not ok and pushes:
        # a skip is acceptable only when it compares whole Diagnostic values
        whole = any(re.search(r"contains$|PartialEq.*::eq$", Body.callee(t) or "") and
                    any("Diagnostic" in (ga.get("ty") or "") for ga in (t["f"].get("args") or []))
                    for _, t in b.calls())
        fieldwise = any(re.search(r"PartialEq.*::(eq|ne)$", Body.callee(t) or "") and
                        any(x in (ga.get("ty") or "") for ga in (t["f"].get("args") or []) for x in ("TextRange", "String", "str"))
                        for _, t in b.calls())
        ok = whole and not fieldwise
    ck.ob("R13.5", "always-records", ok, "every path through IndexCtx::error pushes the diagnostic",
          msg="IndexCtx::error can return without recording the diagnostic (a skip that does not compare whole "
              "diagnostics, file included, can drop the only report for a site)")
    # the file is the current file
    found = False
    for i, t in b.calls():
        if Body.callee(t) == "ide::file_system::FileRange::new":
            fo = prov.origins(b, t["args"][0])
            found = all(x[0] == "call" and x[1].endswith("current_file_id") for x in fo)
    ck.ob("R13.5", "current-file", found, "the diagnostic is filed under current_file_id()",
          msg="IndexCtx::error no longer files diagnostics under the file on top of the include stack")
