"""C12 Editor buffers are the source of truth — structural clauses."""
import re

from .. import cfg, prov, brackets
from ..facts import Body, op_local
from ..callgraph import callgraph

SERVER_SET = "lsp::server::Server::set_file_content"
HOST_SET = "ide::analysis::AnalysisHost::set_file_content"
DID_OPEN = "<lsp::server::Server as async_lsp::LanguageServer>::did_open"
DID_CHANGE = "<lsp::server::Server as async_lsp::LanguageServer>::did_change"
DISK = re.compile(r"^std::fs::(read_to_string|read|File::open|OpenOptions::open)|^std::io::Read")


def run(ck, prog):
    ck.explanation = (
        "Decided on the MIR: (R12.1) text read from disk can reach a salsa file_content write only through a "
        "FileSystem::read_content implementation that first consults the table of documents the editor has sent: "
        "in every read_content implementation of the server the disk read is on the miss-branch of a lookup in a "
        "map that Server::set_file_content (the didOpen/didChange path) writes, keyed by the same path; (R12.2) "
        "didOpen and didChange reach Server::set_file_content with the notification's own uri and text on every "
        "path (a didChange without content changes is the one allowed skip), which unconditionally stores the "
        "text in the database under the document's file id and records it in the open-document table; "
        "AnalysisHost::set_file_content writes the input unconditionally; (R12.3) in Server::set_file_content the "
        "call that records the text in the open-document table dominates every call from which a "
        "FileSystem::read_content implementation is reachable (the include walk). Not decided: the session model (what "
        "the root is, what 'open' means after didClose).")
    ck.trusted = ["salsa inputs keep the last value written"]
    ck.rule("R12.1", "disk text never shadows an open document: read_content consults the open-document table first")
    ck.rule("R12.2", "didOpen/didChange always store the editor's text")
    ck.rule("R12.3", "the open-document table holds the new text before files are re-read")
    cg = callgraph(prog)

    # ---- R12.1 -------------------------------------------------------------------
    impls = [i for i in prog.impls if i.get("trait") == "ide::file_system::FileSystem" and i["crate"] == "lsp.rlib"]
    ck.anchor(impls, "no FileSystem impl in crate lsp")
    writers_reach = cg.reachable([SERVER_SET])
    overlay_writers = set()
    read_impls = set()
    for imp in impls:
        rc = [it["path"] for it in imp["items"] if it["name"] == "read_content"]
        ck.anchor(rc, "read_content not found in the FileSystem impl of %s" % imp["self"])
        b = prog.body(rc[0])
        read_impls.add(rc[0])
        disk = {i for i, t in b.calls() if DISK.search(Body.callee(t) or "")}
        if not disk:
            ck.ob("R12.1", "overlay:%s" % imp["self"], True, "read_content of %s never touches the disk" % imp["self"])
            continue
        tests = [t for t in brackets.option_tests(b, prog)
                 if re.search(r"HashMap::<[^>]*>::get$|BTreeMap::<[^>]*>::get$", t["src_callee"] or "")]
        ok = False
        why = "no lookup in an open-document table before the disk read"
        for t in tests:
            tt = b.term(t["src_bb"])
            recv = prov.origins(b, tt["args"][0])
            key = prov.origins(b, tt["args"][1])
            field = next((x[2][-1] for x in recv if x[0] == "arg" and x[2]), None)
            key_is_path = all(x[0] == "arg" and x[1] == 2 for x in key)
            # disk read only reachable from the miss edge
            from_hit = any(d in b.reachable(t["some_target"], avoid={t["bb"]}) for d in disk)
            from_miss = all(d in b.reachable(t["none_target"], avoid={t["bb"]}) for d in disk)
            # ... and no path returns a text without having consulted the table (a cache of disk reads in front of it)
            bypass = cfg.path_exists(b, 0, lambda x: b.term(x)["k"] == "return", avoid={t["bb"]}, include_src=True)
            if field and key_is_path and from_miss and not from_hit and bypass is not None:
                overlay_writers.update(w for w in field_writers(prog, imp["self"], field) if w in writers_reach)
                why = "read_content can return without consulting the open-document table `%s` (a path around the lookup [%s])" % (
                    field, b.where(bypass[-1]) if isinstance(bypass, (list, tuple)) and bypass else "?")
            if field and key_is_path and from_miss and not from_hit and bypass is None:
                # the same field is written on the didOpen/didChange path
                wr = field_writers(prog, imp["self"], field)
                on_path = [w for w in wr if w in writers_reach]
                if on_path:
                    ok = True
                    overlay_writers.update(on_path)
                    why = "disk is read only when `%s` has no entry for the path; `%s` is filled by %s (reached from Server::set_file_content)" % (field, field, on_path[0])
                else:
                    why = "the table `%s` consulted before the disk read is never written on the didOpen/didChange path" % field
        ck.ob("R12.1", "overlay:%s" % imp["self"], ok, why,
              msg="%s::read_content returns the on-disk text without consulting the documents the editor has sent (%s): "
                  "re-walking the include graph (every didOpen/didChange) overwrites an open, edited included document "
                  "with its disk version" % (imp["self"], why))
    # the only way file text enters the database besides Server::set_file_content is resolve_include_file via read_content
    srcs = set()
    for b, i, t in prog.call_sites(lambda c: c.endswith("SourceDatabase>::set_file_content") or c == "ide::db::SourceDatabase::set_file_content"):
        if b.crate in ("ide.rlib", "lsp.rlib") and not b.path.startswith("ide::tests"):
            srcs.add(b.path)
    want = {HOST_SET, "ide::file_system::resolve_include_file"}
    ck.ob("R12.1", "content-writers", srcs <= want and srcs, "file_content is written only by %s" % sorted(srcs),
          msg="file_content is written from unexpected places: %s" % sorted(srcs - want))
    rb = prog.body("ide::file_system::resolve_include_file")
    ck.anchor(rb is not None, "resolve_include_file not found")
    for i, t in rb.calls():
        if (t["f"].get("decl") or "").endswith("SourceDatabase::set_file_content"):
            o = prov.origins(rb, t["args"][2])
            okp = all(x[0] == "call" and (x[1].endswith("FileSystem::read_content") or "Arc" in x[1] or "from" in x[1]) for x in o)
            ck.ob("R12.1", "include-text-source", okp, "included text comes from FileSystem::read_content",
                  msg="resolve_include_file stores text that does not come from FileSystem::read_content: %s" % sorted(o))

    # ---- R12.2 -------------------------------------------------------------------
    for fn, allow_skip in ((DID_OPEN, False), (DID_CHANGE, True)):
        b = prog.body(fn)
        ck.anchor(b is not None, fn + " not found")
        sets = {i for i, t in b.calls() if Body.callee(t) == SERVER_SET}
        p = cfg.path_exists(b, 0, lambda x: b.term(x)["k"] == "return", avoid=sets, include_src=True)
        ok = bool(sets) and p is None
        detail = "every path stores the text"
        if not ok and allow_skip and sets:
            # the only allowed skip: the None edge of content_changes.first()
            tests = brackets.option_tests(b, prog)
            firsts = [t for t in tests if (t["src_callee"] or "").endswith("::first")]
            ok = False
            for t in firsts:
                # every path that avoids the store must go through the "no content change" edge
                p2 = cfg.path_exists(b, 0, lambda x: b.term(x)["k"] == "return", avoid=sets | {t["none_target"]}, include_src=True)
                if p2 is None:
                    ok = True
                    detail = "skipped only when the notification carries no content change"
        ck.ob("R12.2", "stored:%s" % fn.rsplit("::", 1)[-1], ok, detail,
              msg="%s can return without storing the document text the editor sent (beyond the empty-change case): the "
                  "analysis keeps an older or on-disk text for an open document" % fn)
        for i in sets:
            t = b.term(i)
            uo = prov.origins(b, t["args"][1])
            xo = prov.origins(b, t["args"][2])
            okp = all(x[0] == "arg" and x[1] == 2 for x in uo | xo) or \
                all((x[0] == "arg" and x[1] == 2) or (x[0] == "call" and x[1].endswith("::first")) for x in uo | xo)
            ck.ob("R12.2", "args:%s" % fn.rsplit("::", 1)[-1], okp, "uri and text are the notification's own",
                  msg="%s stores a uri/text that does not come from the notification parameters" % fn)
    sb = prog.body(SERVER_SET)
    ck.anchor(sb is not None, "Server::set_file_content not found")
    hs = {i for i, t in sb.calls() if Body.callee(t) == HOST_SET}
    p = cfg.path_exists(sb, 0, lambda x: sb.term(x)["k"] == "return", avoid=hs, include_src=True)
    ck.ob("R12.2", "server-stores", bool(hs) and p is None, "Server::set_file_content always calls AnalysisHost::set_file_content",
          msg="Server::set_file_content can return without storing the text in the analysis host")
    for i in hs:
        t = sb.term(i)
        to = prov.origins(sb, t["args"][2])
        fo = prov.origins(sb, t["args"][1])
        ck.ob("R12.2", "server-text", all(x[0] == "arg" and x[1] == 3 for x in to),
              "the stored text is the function's text argument", msg="Server::set_file_content stores a text other than its argument: %s" % sorted(to))
        ck.ob("R12.2", "server-file", all(x[0] == "call" and x[1].endswith("assign_or_get_file_id") for x in fo),
              "the file id is the one assigned to the document's path",
              msg="Server::set_file_content stores the text under an id not derived from the document's path")
    overlay_before_reread(ck, prog, cg, sb, overlay_writers, read_impls, "R12.3")

    # ---- R12.5: an open document stays open --------------------------------------------------------------------
    # the server handles no didClose: every document the editor has sent stays "open" for the whole session, so nothing
    # may remove an entry of the open-document table (a clean-up of documents that left the workspace makes a still-open
    # document fall back to its on-disk text when an include brings it back)
    ck.rule("R12.5", "entries of the open-document table are never removed")
    ofields = set()
    for rc_ in read_impls:
        rb_ = prog.body(rc_)
        for t_ in brackets.option_tests(rb_, prog):
            if re.search(r"HashMap::<[^>]*>::get$|BTreeMap::<[^>]*>::get$", t_["src_callee"] or ""):
                for x in prov.origins(rb_, rb_.term(t_["src_bb"])["args"][0]):
                    if x[0] == "arg" and x[2]:
                        ofields.add(x[2][-1])
    removers = []
    for pth_, b_ in prog.bodies.items():
        if b_.crate != "lsp.rlib":
            continue
        for i, t in b_.calls():
            c = Body.callee(t) or ""
            if re.search(r"(HashMap|BTreeMap)::<[^>]*>::(remove|remove_entry|clear|retain|drain|extract_if)$", c) and t["args"]:
                if any((x[0] == "arg" and x[2] and x[2][-1] in ofields) or (x[0] == "call" and len(x) > 3 and x[3] and x[3][-1] in ofields)
                       for x in prov.origins(b_, t["args"][0])):
                    removers.append("%s [%s]" % (pth_, b_.where(i)))
    ck.ob("R12.5", "never-shrinks", bool(ofields) and not removers, "no function of crate lsp removes entries of %s" % sorted(ofields),
          msg="entries of the open-document table are removed in %s: the server never learns that a document was closed, so "
              "a document that is still open in the editor is later read from disk" % (removers or "(table not identified)"))

    # ---- R12.4: one document, one key ---------------------------------------------------------------------------
    # the open-document table, the file-id tables and the include resolution all key on FilePath: two spellings of one
    # path (`/d/./inc.td`, `/d//inc.td`, `/d/inc.td`) must be one key, which is what PathBuf's component-wise Eq / Hash
    # give; a comparison of the raw strings makes an include written with `./` miss the editor's buffer
    ck.rule("R12.4", "paths are compared component-wise (FilePath equality and hash are PathBuf's)")
    for tr, meth, want in (("std::cmp::PartialEq", "eq", "<std::path::PathBuf as std::cmp::PartialEq>::eq"),
                           ("std::hash::Hash", "hash", "<std::path::PathBuf as std::hash::Hash>::hash")):
        fb = prog.body("<ide::file_system::FilePath as %s>::%s" % (tr, meth))
        ck.anchor(fb is not None, "FilePath's %s impl not found" % tr)
        callees = [Body.callee(t) or "" for _, t in fb.calls()]
        cmp_calls = [c for c in callees if re.search(r"PartialEq(<[^>]*>)?>::(eq|ne)$|Hash>::hash$|::hash_slice$", c)]
        ck.ob("R12.4", "filepath-%s" % meth, bool(cmp_calls) and all(c == want for c in cmp_calls),
              "FilePath::%s delegates to PathBuf::%s" % (meth, meth),
              msg="FilePath's %s no longer is PathBuf's component-wise %s (it calls %s): differently spelled paths of one "
                  "file become different keys, so an open document reached through such an include is read from disk and "
                  "gets a second file id" % (tr.rsplit("::", 1)[-1], meth, sorted(set(cmp_calls)) or "nothing comparable"))

    hb = prog.body(HOST_SET)
    ck.anchor(hb is not None, "AnalysisHost::set_file_content not found")
    ws = {i for i, t in hb.calls() if (Body.callee(t) or "").endswith("SourceDatabase>::set_file_content")}
    p = cfg.path_exists(hb, 0, lambda x: hb.term(x)["k"] == "return", avoid=ws, include_src=True)
    ck.ob("R12.2", "host-stores", bool(ws) and p is None, "AnalysisHost::set_file_content writes the salsa input unconditionally",
          msg="AnalysisHost::set_file_content can skip the input write (e.g. an 'unchanged' shortcut): texts written by "
              "include resolution are not tracked by such a shortcut, so the editor's text can be lost")


def field_writers(prog, self_ty, field):
    """functions that insert into self.<field> of type self_ty"""
    out = []
    for p, b in prog.bodies.items():
        if b.impl_self != self_ty:
            continue
        for i, t in b.calls():
            if re.search(r"(HashMap|BTreeMap)::<[^>]*>::insert$", Body.callee(t) or ""):
                o = prov.origins(b, t["args"][0])
                if any(x[0] == "arg" and x[2][-1:] == (field,) for x in o):
                    out.append(p)
    return out


def overlay_tables(prog, cg):
    """(read_content implementations of crate lsp, functions on the didOpen/didChange path that write the table those
    implementations consult first)"""
    read_impls, writers = set(), set()
    reach = cg.reachable([SERVER_SET])
    for imp in prog.impls:
        if imp.get("trait") != "ide::file_system::FileSystem" or imp["crate"] != "lsp.rlib":
            continue
        for it in imp["items"]:
            if it["name"] != "read_content":
                continue
            b = prog.body(it["path"])
            if b is None:
                continue
            read_impls.add(it["path"])
            for t in brackets.option_tests(b, prog):
                if not re.search(r"HashMap::<[^>]*>::get$|BTreeMap::<[^>]*>::get$", t["src_callee"] or ""):
                    continue
                recv = prov.origins(b, b.term(t["src_bb"])["args"][0])
                field = next((x[2][-1] for x in recv if x[0] == "arg" and x[2]), None)
                if field:
                    writers.update(w for w in field_writers(prog, imp["self"], field) if w in reach)
    return read_impls, writers


def overlay_before_reread(ck, prog, cg, sb, overlay_writers, read_impls, rule):
    """shared with C09 and C11 (coordinates and diagnostics are computed from the text the include walk leaves behind)"""
    # ---- R12.3: the editor's text is in the open-document table before anything re-reads files -----------------
    # (re-collecting the sources calls FileSystem::read_content for every include it meets and writes the result into
    # the database: if the walk meets the touched document again, the table must already hold the text just sent)
    dom = cfg.dominators(sb)
    stores = []
    for i, t in sb.calls():
        c = Body.callee(t) or ""
        if c in overlay_writers or any(w in cg.reachable([c]) for w in overlay_writers if not c.startswith("std::")):
            to = set()
            for a in t["args"][1:]:
                to |= {x for x in prov.origins(sb, a) if x[0] == "arg" and x[1] == 3}
            if to:
                stores.append(i)
    nread = 0
    for i, t in sb.calls():
        c = Body.callee(t) or ""
        if c.startswith(("std::", "<std::", "core::", "alloc::")) or i in stores:
            continue
        if not (read_impls & set(cg.reachable([c]))):
            continue
        nread += 1
        ok = any(s_ in dom[i] for s_ in stores)
        ck.ob(rule, "overlay-before:%s#%d" % (c.rsplit("::", 1)[-1], nread), ok,
              "the text is recorded in the open-document table before %s re-reads files" % c.rsplit("::", 1)[-1],
              msg="Server::set_file_content calls %s (which re-reads files through FileSystem::read_content and stores "
                  "what it reads) before the text the editor just sent is recorded in the open-document table [%s]: a "
                  "document reached again through an include gets its on-disk or previous text back" % (c, sb.where(i)))
    ck.floor(rule, "calls of Server::set_file_content that re-read files", nread, 1)
