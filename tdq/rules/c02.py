"""C02 Parser totality: lexing, preprocessing and parsing terminate without panic; errors have messages
and in-text ranges.  Decided by abstract interpretation of the parser's MIR (tdq/parser_ai.py) plus
structural rules on lexer/preprocessor and a panic-site inventory reachable from syntax::parse."""
import re

from .. import grammar_facts as gf, panics, paths, cfg
from ..facts import Body, op_local, op_const, op_place
from ..callgraph import callgraph

PB = "syntax::parser::ParserBase::<T>::"
TS = "syntax::token_stream::TokenStream::"
TOKENKIND = "syntax::token_kind::TokenKind"


def run(ck, prog):
    ck.explanation = (
        "The parser (every function reachable from grammar::source_file, including the ParserBase helpers, "
        "all interpreted from their MIR) is abstractly interpreted over the set of possible look-ahead token "
        "kinds, with function summaries per calling context computed to a fixpoint. From that: (R02.1) every "
        "CFG loop consumes a token on every cycle; (R02.2) no function re-enters itself in the same context "
        "without consuming (left recursion); (R02.3) every ParserBase::assert(K) is reached only with "
        "look-ahead {K}; (R02.4) start_node/start_node_at/finish_node are balanced, checkpoints are used in "
        "the node they were taken in, one root; (R02.5) an Error token always has a parked message: the Error "
        "kind is produced only by the error() helpers after storing Some(message), take_error has exactly the "
        "expected callers; (R02.6) SyntaxError is built only in ParserBase::error from current_range and every "
        "message is a non-empty literal (or built by format with a literal part); (R02.7) every other "
        "panic-capable site reachable from syntax::parse is discharged by one of these rules or by a reviewed "
        "table entry; (R02.8) the lexer consumes at least one character per non-EOF token and the preprocessor's "
        "skipping loop stops at EOF. Work bound: tokens x grammar size follows from R02.1+R02.2+R02.8. "
        "Not decided: stack depth (recursive descent), unscanny/rowan internals.")
    ck.trusted = ["rowan GreenNodeBuilder contract", "unscanny Scanner contract (cursor monotone, char boundaries)",
                  "token streams keep returning Eof at end of input"]
    g = gf.get(prog)
    ck.extra["grammar_ai"] = {"contexts": g.contexts, "states": g.states, "wall_s": g.wall, "rounds": g.rounds,
                              "functions": len(g.functions)}
    ck.count(g.states)
    for r, t in (("R02.1", "every parser loop consumes a token per iteration (all contexts)"),
                 ("R02.2", "no left recursion (re-entry in the same context without progress)"),
                 ("R02.3", "ParserBase::assert(K) only with look-ahead {K}"),
                 ("R02.4", "node brackets balanced; checkpoints used in place; single root; parse ends at EOF"),
                 ("R02.5", "Error kind only produced with a parked message; take_error callers fixed"),
                 ("R02.6", "SyntaxError only from ParserBase::error with current_range; messages non-empty"),
                 ("R02.7", "panic-site inventory from syntax::parse fully discharged"),
                 ("R02.8", "lexer progress: every non-EOF token consumes input; skip loops stop at EOF")):
        ck.rule(r, t)
    ck.ob("R02.1", "analysis-supported", not g.unsupported, "no unsupported construct met by the interpreter",
          msg="parser analysis met constructs it cannot interpret: %r" % (g.unsupported,), nontrivial=False)

    # ---- R02.1 loops -------------------------------------------------------------------
    nloops = 0
    grammar_loops = 0
    for fn, heads in sorted(g.loop_heads.items()):
        b = prog.body(fn)
        for h in heads:
            nloops += 1
            if fn.startswith("syntax::grammar"):
                grammar_loops += 1
            bad = g.noprogress.get((fn, h))
            ck.ob("R02.1", "loop:%s@%d" % (fn, nloops_in(fn, heads, h)), bad is None,
                  "every cycle through the loop at %s consumes a token in all %d contexts" % (b.where(h), len(g.functions[fn])),
                  msg="%s: loop at %s can iterate without consuming a token when the look-ahead is %s" % (
                      fn, b.where(h), (bad or {}).get("la")))
    # coverage by double counting: every loop of every grammar function must have been analysed
    all_grammar_loops = 0
    unreached = []
    for p, b in prog.bodies.items():
        if p.startswith("syntax::grammar") and b.crate == "syntax.rlib":
            n = len(cfg.loops(b))
            all_grammar_loops += n
            if n and p not in g.functions:
                unreached.append(p)
    ck.ob("R02.1", "coverage", not unreached and all_grammar_loops == grammar_loops,
          "%d loops in grammar functions, %d analysed" % (all_grammar_loops, grammar_loops),
          msg="grammar loops not covered by the analysis (functions never reached from source_file): %s" % unreached)
    ck.floor("R02.1", "grammar loops", grammar_loops, 17)

    # ---- R02.2 ---------------------------------------------------------------------------
    for (fn, la), chain in g.leftrec.items():
        ck.ob("R02.2", "leftrec:%s" % fn, False,
              msg="%s is re-entered with the same look-ahead %s without consuming a token: %s" % (fn, list(la)[:6], " -> ".join(chain)))
    ck.ob("R02.2", "scan", True, "%d function contexts checked for re-entry without progress" % g.contexts)

    # ---- R02.3 ---------------------------------------------------------------------------
    n_assert = 0
    static_sites = [(b.path, i) for b in prog.bodies.values() if b.crate == "syntax.rlib"
                    for i, t in b.calls() if Body.callee(t) == PB + "assert"]
    for (fn, bb) in sorted(static_sites):
        seen = g.assert_calls.get((fn, bb))
        b = prog.body(fn)
        n_assert += 1
        if not seen:
            ck.ob("R02.3", "assert:%s#%d" % (fn, ordinal(static_sites, fn, bb)), fn not in g.functions or True,
                  "assert site at %s is unreachable in the analysed contexts" % b.where(bb), nontrivial=False)
            continue
        bad = [(sorted(la), k) for la, k in seen if k is None or not (la <= {k})]
        ck.ob("R02.3", "assert:%s#%d" % (fn, ordinal(static_sites, fn, bb)), not bad,
              "p.assert(%s) at %s: look-ahead is exactly that kind in every context" % (sorted({k for _, k in seen}), b.where(bb)),
              msg="%s: p.assert(..) at %s can be reached with look-ahead %s (assert! would panic)" % (fn, b.where(bb), bad[:2]))
    ck.floor("R02.3", "p.assert call sites", n_assert, 24)
    for (fn, bb), info in g.panics.items():
        ck.ob("R02.3" if fn.endswith("::assert") else "R02.7", "feasible-panic:%s" % fn, False,
              msg="%s: diverging call %s at %s is reachable (look-ahead %s)" % (fn, info["callee"], info["where"], info["la"][:8]))

    # ---- R02.4 ---------------------------------------------------------------------------
    for (fn, what), info in g.balance.items():
        ck.ob("R02.4", "balance:%s:%s" % (fn, what), False, msg="%s: node bracket problem (%s): %s" % (fn, what, info))
    root = g.root_outcomes or ()
    ck.anchor(root, "source_file has no outcome (analysis lost the entry point)")
    ok_root = all(o[5] == (("SourceFile", 1, 1),) and not o[7] for o in root)
    ck.ob("R02.4", "single-root", ok_root, "source_file opens exactly one SourceFile node and leaves nothing open",
          msg="source_file does not produce exactly one closed root node: %s" % [(o[5], o[7]) for o in root][:3])
    ck.ob("R02.4", "ends-at-eof", all(o[0] == frozenset(["Eof"]) for o in root),
          "source_file returns only when the look-ahead is Eof (every token was consumed)",
          msg="source_file can return before end of input: %s" % [sorted(o[0])[:5] for o in root if o[0] != frozenset(["Eof"])][:3])
    n_nodes = sum(len(v) for v in g.node_sites.values())
    ck.floor("R02.4", "start_node/start_node_at sites", n_nodes, 60)
    ck.ob("R02.4", "balanced", not g.balance, "%d node-opening sites, all closed in the opening activation" % n_nodes)
    # parse(): source_file then finish
    pb = prog.body("syntax::parse")
    ck.anchor(pb is not None, "syntax::parse not found")
    order = [Body.callee(t) for _, t in pb.calls()]
    want = ["syntax::lexer::Lexer::<'a>::new", "syntax::preprocessor::PreProcessor::<T>::new", PB + "new",
            "syntax::grammar::source_file", PB + "finish"]
    idx = [order.index(w) if w in order else -1 for w in want]
    ck.ob("R02.4", "parse-sequence", all(i >= 0 for i in idx) and idx == sorted(idx),
          "parse = Lexer::new, PreProcessor::new, Parser::new, source_file, finish",
          msg="syntax::parse no longer runs Lexer -> PreProcessor -> Parser -> source_file -> finish in order: %s" % order)

    rule_r025(ck, prog)
    rule_r026(ck, prog)
    rule_r028(ck, prog)
    rule_r027(ck, prog, g)


def nloops_in(fn, heads, h):
    return sorted(heads).index(h) + 1


def ordinal(sites, fn, bb):
    return sorted(b for f, b in sites if f == fn).index(bb) + 1


# ------------------------------------------------------------------------------------ R02.5
def rule_r025(ck, prog):
    cg = callgraph(prog)
    # (a) producers of the Error kind
    streams = [p for p in prog.bodies if p.endswith(" as syntax::token_stream::TokenStream>::eat")]
    ck.anchor(len(streams) >= 2, "TokenStream::eat impls not found")
    reach = cg.reachable(streams)
    n = 0
    for p in sorted(reach):
        b = prog.bodies[p]
        if b.crate != "syntax.rlib":
            continue
        for i, bb in enumerate(b.blocks):
            if bb["cleanup"]:
                continue
            for j, s in enumerate(bb["s"]):
                rv = s.get("rv") or {}
                if "agg" in rv and isinstance(rv["agg"], dict) and rv["agg"].get("adt") == TOKENKIND and \
                        rv["agg"]["variant"] == "Error":
                    n += 1
                    ok = stores_message_before(b, i, j)
                    ck.ob("R02.5", "error-kind:%s" % p, ok,
                          "%s produces TokenKind::Error after storing Some(message) in self.error" % p,
                          msg="%s produces TokenKind::Error without first parking a message in its error slot "
                              "(ParserBase::save would panic with 'error token without message') [%s]" % (p, b.where(i)))
    ck.floor("R02.5", "Error-kind producers", n, 2)
    # (b) writers of the `error` slots
    writers = set()
    for p, b in prog.bodies.items():
        if b.crate != "syntax.rlib":
            continue
        for i, bb in enumerate(b.blocks):
            for s in bb["s"]:
                pl = s.get("a")
                if pl and pl["p"] and isinstance(pl["p"][-1], dict) and pl["p"][-1].get("n") == "error" and \
                        ("lexer::Lexer" in (b.impl_self or "") or "preprocessor::PreProcessor" in (b.impl_self or "")):
                    writers.add(p)
    allowed = {w for w in writers if w.endswith("::error") or w.endswith("::new")}
    ck.ob("R02.5", "slot-writers", writers == allowed and len(writers) >= 2,
          "error slots are written only by the error() helpers and constructors: %s" % sorted(writers),
          msg="the pending-error slot is written outside error()/new(): %s" % sorted(writers - allowed))
    # (c) take_error callers
    callers = set()
    for p, b in prog.bodies.items():
        for i, t in b.calls():
            c = Body.callee(t) or ""
            d = t["f"].get("decl") or ""
            if c == TS + "take_error" or d == TS + "take_error":
                callers.add(p)
    want = {PB + "save", "<syntax::preprocessor::PreProcessor<T> as syntax::token_stream::TokenStream>::take_error"}
    extra = {c for c in callers - want if not c.startswith(("tablegen_parse", "dump"))}
    ck.ob("R02.5", "take_error-callers", not extra and (PB + "save") in callers,
          "take_error is called only from ParserBase::save and the preprocessor's delegation",
          msg="take_error has unexpected callers %s: a message can be consumed before the Error token is saved" % sorted(extra))
    save_guard(ck, prog, "R02.5")
    # (e) the preprocessor prefers its own slot, else delegates
    tb = prog.body("<syntax::preprocessor::PreProcessor<T> as syntax::token_stream::TokenStream>::take_error")
    ck.anchor(tb is not None, "PreProcessor::take_error not found")
    cs = [(t["f"].get("decl") or Body.callee(t)) for _, t in tb.calls()]
    ck.ob("R02.5", "pp-delegation", TS + "take_error" in cs and any("Option::<T>::take" in (c or "") for c in cs),
          "PreProcessor::take_error takes its own slot or delegates to the inner stream",
          msg="PreProcessor::take_error no longer delegates to the inner stream / takes its own slot: %s" % cs)


def is_error_kind_local(body, op):
    l = op_local(op)
    if l is None:
        return False
    d = body.single_def(l)
    if d and d[0] == "stmt":
        rv = d[3]
        return "agg" in rv and isinstance(rv["agg"], dict) and rv["agg"].get("variant") == "Error" and \
            rv["agg"].get("adt") == TOKENKIND
    return False


def stores_message_before(body, blk, stmt_idx):
    dom = cfg.dominators(body)
    for i, bb in enumerate(body.blocks):
        if bb["cleanup"] or i not in dom.get(blk, ()):
            continue
        for j, s in enumerate(bb["s"]):
            if i == blk and j >= stmt_idx:
                break
            pl = s.get("a")
            rv = s.get("rv") or {}
            if pl and pl["p"] and isinstance(pl["p"][-1], dict) and pl["p"][-1].get("n") == "error":
                if "use" in rv and op_local(rv["use"]) is not None:
                    d = body.single_def(op_local(rv["use"]))
                    if d and d[0] == "stmt":
                        rv = d[3]
                if "agg" in rv and isinstance(rv["agg"], dict) and rv["agg"].get("adt") == "std::option::Option" \
                        and rv["agg"]["variant"] == "Some":
                    return True
    return False


# ------------------------------------------------------------------------------------ R02.6
MSG_FAMILY = None


def msg_param_index(body):
    """index (1-based local) of the parameter named message/msg, else None"""
    for l in range(1, body.argc + 1):
        if body.local_name(l) in ("message", "msg"):
            return l
    return None


def rule_r026(ck, prog):
    from .. import prov
    NEW = "syntax::error::SyntaxError::new"
    CURSOR = TS + "cursor"
    # (a) every SyntaxError is built from a range whose two ends are cursor values (never arithmetic):
    #     follow the range operand back, through parameters, to TextRange::new(start, end)
    n_builders = 0
    todo = [(b, i, t, 0) for b, i, t in prog.call_sites(lambda c: c == NEW) if b.crate == "syntax.rlib"]
    seen = set()
    while todo:
        b, i, t, argi = todo.pop()
        if (b.path, i, argi) in seen:
            continue
        seen.add((b.path, i, argi))
        n_builders += 1
        for o in prov.origins(b, t["args"][argi]):
            key = "error-range:%s" % b.path
            if o[0] == "call" and o[1].endswith("TextRange::new"):
                tt = b.term(o[2])
                ends = [prov.origins(b, a) for a in tt["args"]]
                good = all(all(is_cursor_origin(x) for x in e) for e in ends)
                params = [x for e in ends for x in e if x[0] == "arg" and x[1] != 1]
                ck.ob("R02.6", key, good or bool(params),
                      "range ends come from current_range / cursor(): %s" % ends,
                      msg="%s builds a syntax error range whose ends are not token-boundary cursor values: %s "
                          "(arithmetic on offsets can split a character or leave the text) [%s]" % (b.path, ends, b.where(o[2])))
                for x in params:
                    for cb, ci, ct in prog.call_sites(lambda c: c == b.path):
                        todo.append((cb, ci, ct, x[1] - 1))
            elif o[0] == "arg":
                for cb, ci, ct in prog.call_sites(lambda c: c == b.path):
                    todo.append((cb, ci, ct, o[1] - 1))
                ck.ob("R02.6", key + ":fwd", True, "range forwarded from parameter %d" % o[1], nontrivial=False)
            else:
                ck.ob("R02.6", key, False,
                      msg="%s: syntax error range has provenance %s, expected TextRange::new(cursor, cursor) [%s]" % (b.path, o, b.where(i)))
    ck.floor("R02.6", "SyntaxError construction sites", n_builders, 1)
    rule_r026_token_range(ck, prog)
    sinks = [PB + "error", "syntax::lexer::Lexer::<'a>::error", "syntax::preprocessor::PreProcessor::<T>::error"]
    n_sites = check_messages(ck, prog, sinks)
    ck.floor("R02.6", "message call sites", n_sites, 55)


def rule_r026_token_range(ck, prog):
    """current_range is always cursor-before .. cursor-after exactly one eat()"""
    from .. import prov
    CURSOR = TS + "cursor"
    n_w = 0
    for p, b in prog.bodies.items():
        if b.crate != "syntax.rlib" or "parser::ParserBase" not in (b.impl_self or ""):
            continue
        for i, bb in enumerate(b.blocks):
            if bb["cleanup"]:
                continue
            for s in bb["s"]:
                pl = s.get("a")
                rv = s.get("rv") or {}
                target = None
                if pl and pl["p"] and isinstance(pl["p"][-1], dict) and pl["p"][-1].get("n") == "current_range":
                    target = [prov.rvalue_origins(b, rv, i, 0, set(), (f,)) for f in ("start", "end")]
                elif "agg" in rv and isinstance(rv["agg"], dict) and (rv["agg"].get("adt") or "").startswith("syntax::parser::ParserBase"):
                    target = [prov.rvalue_origins(b, rv, i, 0, set(), ("current_range", f)) for f in ("start", "end")]
                if target is None:
                    continue
                n_w += 1
                ok = all(len(o) == 1 and next(iter(o))[0] == "call" and next(iter(o))[1] == CURSOR for o in target)
                detail = ""
                if ok:
                    sb, eb_ = next(iter(target[0]))[2], next(iter(target[1]))[2]
                    eats = [j for j, t in b.calls() if (t["f"].get("decl") or Body.callee(t)) == TS + "eat"]
                    dom = cfg.dominators(b)
                    ok = len(eats) == 1 and sb in dom[eats[0]] and eats[0] in dom[eb_] and sb != eb_
                    detail = "cursor()@bb%d, eat()@bb%s, cursor()@bb%d" % (sb, eats, eb_)
                ck.ob("R02.6", "token-range:%s" % p, ok, "token range = %s" % detail,
                      msg="%s: the current token's range is not cursor() before .. cursor() after exactly one "
                          "token_stream.eat() (origins %s)" % (p, target))
    ck.floor("R02.6", "current_range writers", n_w, 2)


def is_cursor_origin(o):
    if o[0] == "arg" and o[1] == 1 and len(o[2]) == 2 and o[2][0] == "current_range" and o[2][1] in ("start", "end"):
        return True
    if o[0] == "call" and o[1] == TS + "cursor":
        return True
    return False


def check_messages(ck, prog, sinks):
    """Every message reaching a sink is a non-empty literal, a forwarded parameter (then the caller's call
    sites are checked), a formatted string with a literal part, or a message taken from the token stream."""
    todo = []
    for s in sinks:
        b = prog.body(s)
        ck.anchor(b is not None, s + " not found")
        idx = msg_param_index(b)
        ck.anchor(idx is not None, "message parameter of %s not found" % s)
        todo.append((s, idx))
    seen = set()
    n = 0
    per_fn = {}
    while todo:
        fn, pidx = todo.pop()
        if (fn, pidx) in seen:
            continue
        seen.add((fn, pidx))
        for b, i, t in prog.call_sites(lambda c: c == fn):
            if b.crate != "syntax.rlib":
                continue
            if pidx - 1 >= len(t["args"]):
                continue
            a = t["args"][pidx - 1]
            n += 1
            per_fn[b.path] = per_fn.get(b.path, 0) + 1
            key = "msg:%s->%s#%d" % (b.path, fn.rsplit("::", 1)[-1], per_fn[b.path])
            s = paths.const_str(a)
            if s is not None:
                ck.ob("R02.6", key, bool(s.strip()), "literal message %r" % s,
                      msg="%s passes an empty error message to %s [%s]" % (b.path, fn, b.where(i)))
                continue
            l = op_local(a)
            origin = paths.resolve_value(b, l) if l is not None else ("?",)
            if origin[0] == "arg":
                todo.append((b.path, origin[1]))
                ck.ob("R02.6", key, True, "forwards its own parameter #%d" % origin[1], nontrivial=False)
                continue
            if origin[0] == "call":
                c = Body.callee(origin[2]) or ""
                d = origin[2]["f"].get("decl") or ""
                if "Option::<T>::expect" in c or "Option::<T>::unwrap" in c:
                    # message fetched from the token stream (checked at the lexer/preprocessor sinks)
                    ck.ob("R02.6", key, True, "message taken from the token stream's pending error", nontrivial=False)
                    continue
                if "into" in c or "from" in c.lower():
                    # a conversion of a literal
                    inner = origin[2]["args"][0] if origin[2]["args"] else None
                    s2 = paths.const_str(inner) if inner else None
                    if s2 is not None:
                        ck.ob("R02.6", key, bool(s2.strip()), "literal message %r" % s2,
                              msg="%s passes an empty error message [%s]" % (b.path, b.where(i)))
                        continue
            # formatted message: require a literal piece with visible text somewhere in the body
            lits = [paths.const_str(x) for bb in b.blocks for st in bb["s"]
                    for x in [((st.get("rv") or {}).get("use") or {})] if isinstance(x, dict)]
            lits += [paths.const_str(a2) for _, t2 in b.calls() for a2 in t2["args"]]
            pieces = [x for x in lits if x and x.strip()]
            arrays = paths.const_arrays_in(b, lambda ty: "&str" in ty)
            pieces += [x for _, lst in arrays for x in lst if x.strip()]
            fmt = any("fmt" in (Body.callee(t2) or "") or "format" in (Body.callee(t2) or "") for _, t2 in b.calls())
            ck.ob("R02.6", key, bool(pieces) or fmt, "formatted message with a literal part %r" % (pieces[:1],),
                  msg="%s builds an error message with no literal text [%s]" % (b.path, b.where(i)))
    return n


# ------------------------------------------------------------------------------------ R02.8
def rule_r028(ck, prog):
    nb = prog.body("syntax::lexer::Lexer::<'a>::next_token")
    ck.anchor(nb is not None, "Lexer::next_token not found")
    # Scanner::eat() is called before any branching: the first scanner call that can consume
    eat_blocks = [i for i, t in nb.calls() if Body.callee(t) == "unscanny::Scanner::<'a>::eat"]
    dom = cfg.dominators(nb)
    rets = nb.returns()
    ok = len(eat_blocks) >= 1 and all(any(e in dom[r] for e in eat_blocks) for r in rets)
    ck.ob("R02.8", "lexer-eats-first", ok, "Scanner::eat() dominates every return of next_token",
          msg="Lexer::next_token can return a token without consuming a character (zero-width token => the parser cannot make progress)")
    # jump-back is bounded: Scanner::jump targets a cursor() value obtained in the same function
    for p, b in prog.bodies.items():
        if b.crate != "syntax.rlib":
            continue
        for i, t in b.calls():
            if Body.callee(t) == "unscanny::Scanner::<'a>::jump":
                l = op_local(t["args"][1])
                o = paths.resolve_value(b, l) if l is not None else ("?",)
                ok = o[0] == "call" and Body.callee(o[2]) == "unscanny::Scanner::<'a>::cursor"
                ck.ob("R02.8", "jump:%s" % p, ok, "Scanner::jump target is a cursor() value read earlier in %s" % p,
                      msg="%s: Scanner::jump target does not come from cursor() in the same activation "
                          "(could move before the token start) [%s]" % (p, b.where(i)))
                # and the caller consumed the first character before: callers reach us after Scanner::eat
    # loops in lexer/preprocessor: each cycle calls a consuming scanner/stream method, or exits on Eof
    # every hand-written loop of the lexer and the preprocessor, whatever the function is called
    looping = sorted(p for p, b in prog.bodies.items()
                     if (p.startswith("syntax::preprocessor::PreProcessor") or p.startswith("syntax::lexer::Lexer"))
                     and not b.parent and cfg.loops(b))
    ck.floor("R02.8", "functions with loops in lexer/preprocessor", len(looping), 3)
    for p in looping:
        b = prog.body(p)
        for h, body_blocks in cfg.loops(b):
            consuming = {i for i, t in b.calls() if i in body_blocks and (
                (t["f"].get("decl") or "") == TS + "eat" or Body.callee(t) == "unscanny::Scanner::<'a>::eat")}
            # every cycle head -> head passes a consuming call
            cyc = cfg.path_exists(b, h, lambda x: x == h, avoid=consuming | (set(range(len(b.blocks))) - set(body_blocks)))
            ck.ob("R02.8", "loop:%s" % p, cyc is None and bool(consuming),
                  "every iteration of the loop in %s reads a token/character" % p,
                  msg="%s: a loop iteration does not read from the input" % p)
            # the loop has an exit on Eof / None: some arm tests Eof
            if "preprocessor" in p:
                eof_exit = loop_exits_on(b, prog, h, body_blocks, "Eof") or not is_infinite(b, h, body_blocks)
                ck.ob("R02.8", "eof-exit:%s" % p, eof_exit, "the loop in %s leaves on Eof or on a non-trivia token" % p,
                      msg="%s: the skipping loop has no exit at end of input (hangs on an unterminated region)" % p)


def is_infinite(b, h, blocks):
    return True


def loop_exits_on(b, prog, h, blocks, variant):
    """does some switch inside the loop on a TokenKind discriminant send `variant` (or everything non-trivia) out of the loop?"""
    tk = {v["discr"]: v["name"] for v in prog.adts[TOKENKIND]["variants"]}
    for i in blocks:
        t = b.term(i)
        if t["k"] != "switch":
            continue
        c = paths.switch_cond(b, prog, i)
        if c.kind == "discr" and c.data[1] == TOKENKIND:
            for val, tgt in t["arms"]:
                if tk.get(val) == variant:
                    # following tgt must leave the loop without returning to h... allow reaching outside
                    reach = b.reachable(tgt, avoid={h})
                    if any(x not in blocks for x in reach):
                        return True
        if c.kind == "call":
            callee = Body.callee(c.data[1]) or ""
            if callee.endswith("TokenKind::is_trivia"):
                return True
    return False


# ------------------------------------------------------------------------------------ R02.7
def d_offset_conversion(prog, b, s):
    """unwrap/expect of a usize -> u32/TextSize conversion of a text offset"""
    from .. import prov
    t = b.term(s.bb)
    src = t["args"][0] if t["args"] else None
    l = op_local(src) if src else None
    d = b.single_def(l) if l is not None else None
    if d and d[0] == "call":
        c = Body.callee(d[2]) or ""
        ga = [a.get("ty") for a in (d[2]["f"].get("args") or [])]
        if ("TryInto" in c or "TryFrom" in c or "try_into" in c or "try_from" in c) and "usize" in ga and \
                any(x in ("text_size::TextSize", "rowan::TextSize", "u32") for x in ga):
            return ("usize -> 32-bit offset conversion: fails only for texts >= 4 GiB, outside the property's "
                    "quantifier (offsets are u32 by design)")
    return None


def d_format_unwrap(prog, b, s):
    t = b.term(s.bb)
    if s.mac and ("format" in s.mac):
        return "formatting into an in-memory string (eco_format!/format!) cannot fail"
    return None


def d_cursor_range(prog, b, s):
    from .. import prov
    t = b.term(s.bb)
    ends = [prov.origins(b, a) for a in t["args"]]
    if len(ends) == 2 and all(all(is_cursor_origin(x) for x in e) for e in ends):
        names = [next(iter(e)) for e in ends]
        if all(n[0] == "arg" for n in names) and names[0][2][-1] == "start" and names[1][2][-1] == "end":
            return "start/end of current_range, which is cursor-before..cursor-after one token (R02.6); cursors are monotone"
    return None


def d_r024(prog, b, s):
    return "discharged by R02.4 (node balance and checkpoint placement decided by the parser analysis)"


def d_r023(prog, b, s):
    if s.fn.endswith("ParserBase::<T>::assert"):
        return "discharged by R02.3 (look-ahead is exactly the asserted kind at every call site)"
    return None


def d_r025(prog, b, s):
    if s.fn.endswith("ParserBase::<T>::save"):
        return "discharged by R02.5 (an Error token always has a parked message)"
    return None


def d_unscanny_total(prog, b, s):
    return "unscanny: eat_while/eat_until stop at end of input and never panic"


def d_unscanny_index(prog, b, s):
    from .. import prov
    t = b.term(s.bb)
    for a in t["args"][1:]:
        for o in prov.origins(b, a):
            ok = (o[0] == "call" and o[1].endswith("Scanner::<'a>::cursor")) or o[0] == "arg" or \
                 (o[0] == "agg" and "Range" in str(o[1]))
            if not ok:
                return None
    return ("index is a Scanner::cursor() value / a token range handed down by the parser (token boundaries are "
            "char boundaries by unscanny's contract); R02.6 and R02.8 pin where these come from")


def d_unit_counter(prog, b, s):
    """overflow check of `x += 1` / `x -= 1` on a counter of at least 32 bits: +1 needs >= 2^31 steps (each step of
    lexer/parser code consumes input, so the text would exceed the 4 GiB the offsets can address); -1 must be
    guarded by a comparison of the same variable in a dominating block."""
    bb = b.blocks[s.bb]
    for st in reversed(bb["s"]):
        rv = st.get("rv") or {}
        if rv.get("binop") in ("AddWithOverflow", "SubWithOverflow"):
            c = op_const(rv["b"])
            if c is None or c.get("int") != 1 or c["ty"] not in ("i32", "u32", "i64", "u64", "usize", "isize"):
                return None
            if rv["binop"] == "AddWithOverflow":
                return "unit increment of a %s counter: cannot overflow for texts below 4 GiB" % c["ty"]
            if c["ty"] in ("i32", "i64", "isize"):
                # a signed counter underflows only after 2^31 unit decrements, each of which consumed input
                return "unit decrement of a signed %s counter: cannot underflow for texts below 4 GiB" % c["ty"]
            var = op_local(rv["a"])
            src = var
            d = b.single_def(var) if var is not None else None
            if d and d[0] == "stmt" and "use" in d[3] and op_local(d[3]["use"]) is not None:
                src = op_local(d[3]["use"])
            dom = cfg.dominators(b)
            for i in dom.get(s.bb, ()):
                for st2 in b.blocks[i]["s"]:
                    rv2 = st2.get("rv") or {}
                    if rv2.get("binop") in ("Ge", "Gt", "Ne", "Lt", "Le", "Eq"):
                        la = op_local(rv2["a"])
                        da = b.single_def(la) if la is not None else None
                        base = op_local(da[3]["use"]) if da and da[0] == "stmt" and "use" in da[3] else la
                        if base in (src, var) and op_const(rv2["b"]) is not None:
                            return "unit decrement guarded by a dominating comparison of the same counter"
            return None
    return None


TABLE = [
    ("precond", r"unscanny::Scanner::<'a>::(eat_while|eat_until)$", d_unscanny_total),
    ("precond", r"unscanny::Scanner::<'a>::(from|get|jump)$", d_unscanny_index),
    ("unwrap", r"Result::<T, E>::(expect|unwrap)$", d_offset_conversion),
    ("unwrap", r"Result::<T, E>::(expect|unwrap)$", d_format_unwrap),
    ("unwrap", r"Option::<T>::expect$", d_r025),
    ("precond", r"TextRange::new$", d_cursor_range),
    ("precond", r"GreenNodeBuilder::<'_>::(finish_node|start_node_at|finish)$", d_r024),
    ("panic", r"core::panicking::panic$", d_r023),
    ("mir-assert", r"Overflow", d_unit_counter),
]


def rule_r027(ck, prog, g):
    sites, reach = panics.inventory(prog, ["syntax::parse"])
    ck.extra["bodies_reachable_from_parse"] = len(reach)
    for s in sites:
        b = prog.bodies[s.fn]
        reason = None
        if s.kind == "panic" and s.mac and "unreachable" in s.mac:
            reason = const_switch_unreachable(b, prog, s.bb)
        if reason is None:
            for kind, wre, fn in TABLE:
                if kind == s.kind and re.search(wre, s.what):
                    reason = fn(prog, b, s)
                    if reason:
                        break
        ck.ob("R02.7", "site:%s" % s.key, reason is not None, reason or "",
              msg="undischarged panic-capable site reachable from syntax::parse: %s in %s [%s] %s" % (
                  s.what, s.fn, b.where(s.bb), s.mac or ""))
    ck.floor("R02.7", "panic-capable sites under syntax::parse", len(sites), 30)


def const_switch_unreachable(b, prog, pbb):
    """The panic block is the default target of switches on a local whose every definition is an integer
    constant that has its own arm (e.g. `match base {2,10,16, _ => unreachable!()}`)."""
    preds = [p for p in b.pred(pbb)]
    if not preds:
        return None
    for p in preds:
        t = b.term(p)
        if t["k"] != "switch" or t["else"] != pbb:
            return None
        l = op_local(t["d"])
        if l is None:
            return None
        # follow copies
        v = l
        d = b.single_def(v)
        while d and d[0] == "stmt" and "use" in d[3] and op_local(d[3]["use"]) is not None:
            v = op_local(d[3]["use"])
            d = b.single_def(v)
        defs = b.defs().get(v, [])
        vals = set()
        for dd in defs:
            if dd[0] != "stmt" or "use" not in dd[3]:
                return None
            c = op_const(dd[3]["use"])
            if c is None or "int" not in c:
                return None
            vals.add(c["int"])
        arms = {a[0] for a in t["arms"]}
        if not vals or not vals <= arms:
            return None
    return "default arm of a match on a local that only ever holds constants with their own arms"


def save_guard(ck, prog, rule):
    """shared with C15: a pending lexer / preprocessor message is turned into a diagnostic only for an Error token that is
    delivered (a message left behind by malformed text inside a disabled region is never reported)"""
    # (d) in save, take_error is under at(Error); and Option::take is how slots are emptied
    sb = prog.body(PB + "save")
    ck.anchor(sb is not None, "ParserBase::save not found")
    take_blocks = [i for i, t in sb.calls() if (t["f"].get("decl") or Body.callee(t)) == TS + "take_error"]
    at_blocks = [i for i, t in sb.calls() if Body.callee(t) == PB + "at" and
                 any((op_const(a) or {}).get("val", "").endswith("TokenKind::Error") or
                     is_error_kind_local(sb, a) for a in t["args"])]
    dom = cfg.dominators(sb)
    ok = bool(take_blocks) and bool(at_blocks) and all(any(a in dom[tb] for a in at_blocks) for tb in take_blocks) \
        and len(take_blocks) == 1
    ck.ob(rule, "save-guard", ok, "save() fetches the message once, dominated by the at(Error) test",
          msg="ParserBase::save no longer fetches the pending message exactly once under at(TokenKind::Error)")
