"""C19 Hover and inlay hints describe the declaration they point at — structural clauses."""
import re

from .. import cfg, prov
from ..facts import Body, op_local
from .c03 import rowan_pairing
from .. import panics

FIND = "ide::symbol_map::SymbolMap::find_symbol_at"


def run(ck, prog):
    ck.explanation = (
        "Decided on the MIR: (R19.1) hover takes the symbol from the same find_symbol_at lookup as go-to-"
        "definition (its own position), builds the signature from that symbol and reads doc comments from the "
        "parse of that symbol's own definition file at its definition range; (R19.2) template-argument hints: "
        "the argument list is that of the ClassRef/ClassValue node that is the direct parent of the identifier "
        "the symbol was found at; positional arguments (take_while positional) are zipped, in order, with "
        "iter_template_arg() of the referenced class; hint positions are the argument's own range start, and the "
        "end of the field name's range for field overrides, with the field's declared type as label; (R19.3) "
        "every hint returned lies inside the requested range: the result is filtered by a containment test of "
        "each hint's position against the request range; (R19.4) in the doc-comment walk every cycle through the "
        "statement that collects a line passes, on the passing edge, the four per-line tests (separator is "
        "Whitespace, it contains exactly one newline, the line is a LineComment, it starts with //): no line is "
        "collected across a blank line or a non-comment token. Not decided: the exact signature text.")
    ck.trusted = ["rowan tree navigation", "indexmap insertion order = declaration order"]
    for r, t in (("R19.1", "hover describes the symbol go-to-definition jumps to"),
                 ("R19.2", "hints are built from the referenced class's parameters in order, at the arguments' own positions"),
                 ("R19.3", "only hints inside the requested range are returned")):
        ck.rule(r, t)

    # ---- R19.1 -------------------------------------------------------------------
    hb = prog.body("ide::handlers::hover::exec")
    sb = prog.body("ide::handlers::hover::extract_symbol_signature")
    ck.anchor(hb is not None and sb is not None, "hover::exec / extract_symbol_signature not found")
    finds = [(i, t) for i, t in sb.calls() if Body.callee(t) == FIND]
    ok = len(finds) == 1 and all(x[0] == "arg" for x in prov.origins(sb, finds[0][1]["args"][1]))
    ck.ob("R19.1", "same-lookup", ok, "hover uses find_symbol_at(request position)",
          msg="hover no longer looks the symbol up with find_symbol_at at the request position (it may describe a different "
              "symbol than go-to-definition)")
    # the define_loc returned is that of the symbol found
    dl = [(i, t) for i, t in sb.calls() if (Body.callee(t) or "").endswith("Symbol::<'a>::define_loc")]
    ok = len(dl) >= 1 and all(all(x[0] == "call" and x[1] == FIND for x in prov.origins(sb, t["args"][0])) for _, t in dl)
    ck.ob("R19.1", "same-symbol-loc", ok, "the definition location used for doc comments belongs to the symbol found",
          msg="hover derives the documentation location from something other than the found symbol's define_loc")
    # doc comments: parse(define_loc.file) + covering_element(define_loc.range)
    eb = prog.body("ide::handlers::hover::extract_doc_comments")
    ck.anchor(eb is not None, "extract_doc_comments not found")
    site = None
    for i, t in eb.calls():
        if (Body.callee(t) or "").endswith("covering_element"):
            site = panics.Site(eb.path, i, "precond", Body.callee(t), None, None)
    ok = site is not None and rowan_pairing(prog, eb, site) is not None
    ck.ob("R19.1", "doc-file-pairing", ok, "doc comments are read from parse(define_loc.file) at define_loc.range",
          msg="hover reads doc comments from the parse of a file other than the definition's own file")

    # ---- R19.2 -------------------------------------------------------------------
    cb = prog.body("ide::handlers::inlay_hint::inlay_hint_class")
    ck.anchor(cb is not None, "inlay_hint_class not found")
    casts = [(i, t) for i, t in cb.calls() if re.search(r"^<syntax::ast::Class(Ref|Value) as .*AstNode>::cast$", Body.callee(t) or "")]
    ok = len(casts) == 2
    for i, t in casts:
        o = prov.origins(cb, t["args"][0])
        # the node cast is identifier_node.parent()
        ok = ok and all(x[0] == "call" and x[1].endswith("SyntaxNode::<L>::parent") for x in o)
        for x in o:
            if x[0] == "call":
                po = prov.origins(cb, cb.term(x[2])["args"][0])
                # ... whose receiver is the identifier node found at the symbol's range (covering_element result or its parent)
                ok = ok and all(y[0] == "call" and (y[1].endswith("::parent") or y[1].endswith("into_node")) for y in po)
    ck.ob("R19.2", "direct-parent", ok, "the class reference is the direct parent of the identifier the symbol was found at",
          msg="inlay_hint_class no longer takes the ClassRef/ClassValue that is the direct parent of the identifier: an "
              "enclosing reference's arguments can be labelled with this class's parameters")
    calls = [Body.callee(t) or "" for _, t in cb.calls()]
    zipped = any(c.endswith("Iterator::zip") for c in calls) and any(c.endswith("Iterator::take_while") for c in calls) \
        and any(c.endswith("Record::iter_template_arg") for c in calls) and any(c.endswith("ArgValueList::arg_values") for c in calls)
    reorder = [c for c in calls if re.search(r"Iterator::(rev|skip|step_by|filter|filter_map|skip_while|chain|cycle)$", c)]
    ck.ob("R19.2", "zip-in-order", zipped and not reorder,
          "positional arguments (take_while) zipped with iter_template_arg(), no reordering adaptor",
          msg="inlay_hint_class no longer zips the positional arguments with the class's template arguments in order (%s)" % reorder)
    # iter_template_arg is taken from the class symbol passed in, which exec obtained for the same position-map entry
    for i, t in cb.calls():
        if Body.callee(t) == "ide::handlers::inlay_hint::InlayHint::new":
            po = prov.origins(cb, t["args"][0])
            okp = all(x[0] == "call" and x[1].endswith("TextRange::start") for x in po)
            if okp:
                for x in po:
                    ro = prov.origins(cb, cb.term(x[2])["args"][0])
                    okp = okp and all(y[0] == "call" and re.search(r"Iterator>::next$", y[1]) for y in ro)
            ck.ob("R19.2", "arg-position", okp, "hint position = start of the zipped argument's own range",
                  msg="template-argument hint is not placed at the start of the argument it labels (%s)" % sorted(po))
    fb = prog.body("ide::handlers::inlay_hint::inlay_hint_record_field")
    ck.anchor(fb is not None, "inlay_hint_record_field not found")
    for i, t in fb.calls():
        if Body.callee(t) == "ide::handlers::inlay_hint::InlayHint::new":
            po = prov.origins(fb, t["args"][0])
            okp = all(x[0] == "call" and x[1].endswith("TextRange::end") for x in po)
            if okp:
                for x in po:
                    ro = prov.origins(fb, fb.term(x[2])["args"][0])
                    okp = okp and all(y[0] == "arg" and y[2][-1:] == ("range",) for y in ro)
            ck.ob("R19.2", "field-position", okp, "field hint position = end of the field name's range",
                  msg="field-override hint is not placed right after the field name (%s)" % sorted(po))
    # the label of a field hint is the field's declared type
    lab = False
    for c in [fb] + prog.closures_of(fb.path):
        for blk in c.blocks:
            for s in blk["s"]:
                rv = s.get("rv") or {}
                pl = rv.get("ref") or {}
                if any(isinstance(x, dict) and x.get("n") == "typ" for x in pl.get("p", [])):
                    lab = True
    ck.ob("R19.2", "field-label", lab, "field hint label is formatted from record_field.typ",
          msg="field-override hint label no longer comes from the field's declared type")
    # exec passes the class/field of the very symbol whose range it iterates
    xb = prog.body("ide::handlers::inlay_hint::exec")
    ck.anchor(xb is not None, "inlay_hint::exec not found")
    it = [(i, t) for i, t in xb.calls() if (Body.callee(t) or "").endswith("SymbolMap::iter_symbols_in_range")]
    ok = len(it) == 1 and all(x[0] == "arg" for x in prov.origins(xb, it[0][1]["args"][1]))
    ck.ob("R19.2", "symbols-of-range", ok, "symbols are fetched for the requested range itself",
          msg="inlay_hint::exec fetches symbols for a range other than the requested one")

    # ---- R19.3 -------------------------------------------------------------------
    # every hint that reaches the result passed a containment test against the request range
    filt = None
    for i, t in xb.calls():
        c = Body.callee(t) or ""
        if re.search(r"Vec::<T, A>::retain$|Iterator::filter$", c):
            filt = (i, t)
    ok = False
    why = "no filtering of the collected hints"
    if filt is not None:
        clos = [ga.get("closure") for ga in (filt[1]["f"].get("args") or []) if ga.get("closure")]
        for cp in clos:
            cbody = prog.body(cp)
            for j, tt in cbody.calls():
                cc = Body.callee(tt) or ""
                if re.search(r"TextRange::(contains|contains_inclusive)$", cc):
                    ro = prov.origins(cbody, tt["args"][0])
                    po = prov.origins(cbody, tt["args"][1])
                    # range: captured request range; position: the hint's own position
                    cap_ok = all(x[0] == "arg" and x[1] == 1 for x in ro)
                    pos_ok = all(x[0] == "arg" and x[1] == 2 and x[2][-1:] == ("position",) for x in po)
                    if cap_ok and pos_ok:
                        from .c13 import closure_capture_origins
                        k = [x for x in ro if x[2] and x[2][0].isdigit()]
                        capo = set()
                        for x in k:
                            capo |= closure_capture_origins(prog, xb, cp, int(x[2][0]))
                        if all(y[0] == "arg" and y[1] == 2 for y in capo) and capo:
                            ok = True
                            why = "hints.retain(|h| request.range.contains*(h.position))"
        # and the filter dominates the return of the collected vector
        if ok:
            dom = cfg.dominators(xb)
            somes = [i for i, bb in enumerate(xb.blocks) for s in bb["s"]
                     if isinstance((s.get("rv") or {}).get("agg"), dict) and (s["rv"]["agg"].get("variant") == "Some")
                     and s["a"]["l"] == 0]
            ok = all(filt[0] in dom[i] for i in somes) and bool(somes)
    ck.ob("R19.3", "range-filter", ok, why,
          msg="inlay_hint::exec returns hints without testing that their position lies inside the requested range (%s): a "
              "symbol that merely overlaps the range contributes hints outside of it" % why)

    # ---- R19.4 -------------------------------------------------------------------
    doc_adjacency(ck, prog, eb)
    # ---- R19.5 -------------------------------------------------------------------
    doc_owner(ck, prog, eb)


def _gates(prog, b):
    """conditional branches of `b` that test a token: -> list of (kind, switch_block, pass_target, fail_target)
    kinds: 'ws' (kind == Whitespace), 'comment' (kind == LineComment), 'nl1' (text.matches('\\n').count() == 1),
    'slashes' (text.starts_with("//"))"""
    out = []
    for i, bb in enumerate(b.blocks):
        if bb["cleanup"]:
            continue
        t = bb["term"]
        if t["k"] != "switch":
            continue
        dl = op_local(t["d"])
        if dl is None:
            continue
        targets = {v: tgt for v, tgt in t["arms"]}
        zero, other = targets.get(0), t["else"]
        if zero is None or len(t["arms"]) != 1:
            # a switch over the SyntaxKind discriminant itself (`matches!(tok.kind(), SyntaxKind::Whitespace)`)
            d = b.single_def(dl)
            if d and d[0] == "stmt" and "discr" in d[3] and "SyntaxKind" in (d[3].get("of") or ""):
                for v, tgt in t["arms"]:
                    name = prog.variant_by_discr("syntax::syntax_kind::SyntaxKind", v)
                    if name in ("Whitespace", "LineComment"):
                        out.append(("ws" if name == "Whitespace" else "comment", i, tgt, t["else"]))
            continue
        # the tested value: its one computed definition; further definitions may only be constants that take the failing
        # edge (`a && b` stored in a bool: false on the short-circuit path, the comparison otherwise)
        for _ in range(4):      # `_t = copy flag; switch(move _t)`
            sd = b.single_def(dl)
            src = op_local(sd[3]["use"]) if sd and sd[0] == "stmt" and "use" in sd[3] else None
            if src is None:
                break
            dl = src
        alld = b.defs().get(dl, [])
        cdefs = [op_const_int(x[3]["use"]) for x in alld if x[0] == "stmt" and "use" in x[3] and op_const_int(x[3]["use"]) is not None]
        computed = [x for x in alld if not (x[0] == "stmt" and "use" in x[3] and op_const_int(x[3]["use"]) is not None)]
        if len(computed) != 1:
            continue
        d = computed[0]
        route = lambda v: targets.get(v, t["else"])
        if d[0] == "call":
            c = Body.callee(d[2]) or ""
            if c in ("std::cmp::PartialEq::eq", "std::cmp::PartialEq::ne") or c.endswith("PartialEq>::eq") or c.endswith("PartialEq>::ne"):
                vals = set()
                kind_side = False
                for a in d[2]["args"][:2]:
                    for o in prov.origins(b, a):
                        if o[0] == "const" and "SyntaxKind::" in str(o[1]):
                            vals.add(str(o[1]).rsplit("::", 1)[-1])
                        if o[0] == "call" and str(o[1]).endswith("SyntaxToken::<L>::kind"):
                            kind_side = True
                if kind_side and len(vals) == 1 and next(iter(vals)) in ("Whitespace", "LineComment"):
                    equal_tgt, differ_tgt = (other, zero) if c.endswith("::eq") else (zero, other)
                    if all(route(v) == differ_tgt for v in cdefs):
                        out.append(("ws" if "Whitespace" in vals else "comment", i, equal_tgt, differ_tgt))
            elif c.endswith("<impl str>::starts_with"):
                pat = {str(o[1]) for o in prov.origins(b, d[2]["args"][1]) if o[0] == "const"}
                if pat == {'"//"'} and all(route(v) == zero for v in cdefs):
                    out.append(("slashes", i, other, zero))
        elif d[0] == "stmt" and d[3].get("binop") in ("Eq", "Ne", "Lt", "Le", "Gt", "Ge"):
            rv = d[3]
            ops = [rv["a"], rv["b"]]
            consts = [op_const_int(o) for o in ops]
            known = [c for c in consts if c is not None]
            if len(known) == 1:
                ci = 0 if consts[0] is not None else 1
                oth = ops[1 - ci]
                is_count = False
                for o in prov.origins(b, oth):
                    if o[0] == "call" and str(o[1]).endswith("Iterator::count"):
                        recv = b.term(o[2])["args"][0]
                        for o2 in prov.origins(b, recv):
                            if o2[0] == "call" and str(o2[1]).endswith("<impl str>::matches"):
                                pat = b.term(o2[2])["args"][1]
                                c = pat.get("const") or {}
                                if c.get("int") == 10 or c.get("val") in ('"\\n"', "'\\n'"):
                                    is_count = True
                if is_count:
                    # which newline counts take which edge: the passing edge is the one taken by exactly one newline; the
                    # test is the adjacency test if two or more newlines (a blank line) take the other one
                    def holds(n):
                        x, y = (known[0], n) if ci == 0 else (n, known[0])
                        return {"Eq": x == y, "Ne": x != y, "Lt": x < y, "Le": x <= y, "Gt": x > y, "Ge": x >= y}[rv["binop"]]
                    edge = lambda n: other if holds(n) else zero
                    if edge(2) == edge(3) == edge(7) and edge(1) != edge(2) and all(route(v) == edge(2) for v in cdefs):
                        out.append(("nl1", i, edge(1), edge(2)))
    return out


def _reach_ps(b, start, avoid=()):
    """blocks reachable from `start` without entering `avoid`, following only the feasible arm of a switch whose operand is
    a local that holds a known constant on that path (bool temporaries of `&&` / `||`, flags)"""
    seen = set()
    out = set()
    st = [(start, frozenset())]
    while st and len(seen) < 20000:
        blk, env = st.pop()
        if blk in avoid or b.is_cleanup(blk) or (blk, env) in seen:
            continue
        seen.add((blk, env))
        out.add(blk)
        e = dict(env)
        for s_ in b.blocks[blk]["s"]:
            a = s_.get("a")
            if not a or a["p"]:
                continue
            rv = s_.get("rv") or {}
            v = None
            if "use" in rv:
                v = op_const_int(rv["use"])
                if v is None:
                    src = op_local(rv["use"])
                    v = e.get(src) if src is not None else None
            if v is None:
                e.pop(a["l"], None)
            else:
                e[a["l"]] = v
        t = b.blocks[blk]["term"]
        if t["k"] == "call" and t.get("dest") and not t["dest"]["p"]:
            e.pop(t["dest"]["l"], None)
        nxt = b.succ(blk)
        if t["k"] == "switch":
            dl = op_local(t["d"])
            if dl is not None and dl in e:
                nxt = [dict((v, tg) for v, tg in t["arms"]).get(e[dl], t["else"])]
        fe = frozenset(e.items())
        for n in nxt:
            st.append((n, fe))
    return out


def op_const_int(op):
    c = op.get("const") if isinstance(op, dict) else None
    return c.get("int") if c else None


def doc_adjacency(ck, prog, eb):
    ck.rule("R19.4", "every doc-comment line collected is a `//` comment separated by exactly one newline from the line below")
    gates = _gates(prog, eb)
    pushes = [i for i, t in eb.calls() if (Body.callee(t) or "").endswith("Vec::<T, A>::push")]

    def on_cycle(blk, avoid=()):
        st = list(eb.succ(blk))
        seen = set()
        while st:
            x = st.pop()
            if x in seen or x in avoid or eb.is_cleanup(x):
                continue
            if x == blk:
                return True
            seen.add(x)
            st.extend(eb.succ(x))
        return False
    looped = [p for p in pushes if on_cycle(p)]
    need = (("ws", "the separator is a whitespace token"), ("nl1", "the separator contains exactly one newline"),
            ("comment", "the line is a LineComment token"), ("slashes", "the comment starts with //"))
    if looped:
        for p in looped:
            for kind, what in need:
                ok = False
                for k, blk, pass_t, fail_t in gates:
                    if k != kind:
                        continue
                    per_iteration = not on_cycle(p, avoid={blk})
                    wrong_edge = p in _reach_ps(eb, fail_t, avoid={blk})
                    if per_iteration and not wrong_edge:
                        ok = True
                ck.ob("R19.4", "doc-line:%s" % kind, ok, "each collected line passes the test: %s" % what,
                      msg="hover::extract_doc_comments: a comment line can be added to the documentation without the test "
                          "that %s on that iteration [%s]: lines that are not contiguous with the declaration (separated "
                          "by a blank line, or not `//` comments) become part of the hover text" % (what, eb.where(p)))
        ck.floor("R19.4", "per-line tests of the doc-comment walk", len(need) * len(looped), 4)
        return
    # iterator form: the lines are collected by adaptors; the per-line tests must then live in their closures
    inner = []
    for c in prog.closures_of(eb.path):
        inner += [g[0] for g in _gates(prog, c)]
    outer = [g[0] for g in gates]
    ok = "nl1" in inner or ("nl1" not in outer and not inner and not pushes)
    ck.ob("R19.4", "doc-line:iterator-form", "nl1" in inner,
          "the one-newline test is evaluated per collected line (inside an iterator closure)",
          msg="hover::extract_doc_comments collects comment lines without testing, for each line, that exactly one newline "
              "separates it from the line below (the test is %s): comment groups separated by blank lines are glued to the "
              "documentation" % ("made once outside the collection" if "nl1" in outer else "absent"))


def doc_owner(ck, prog, eb):
    """R19.5: the node whose leading comments are shown is the declaration the hovered name belongs to: the direct parent
    of the name's Identifier node, or - for the name of a def, which is wrapped as Value > InnerValue > Identifier - the
    third parent. A search upwards for "some declaration kind" is not that node for symbols whose declaration kind is not
    in the searched list (template arguments, iterators, operator variables would show the enclosing record's comment)."""
    ck.rule("R19.5", "the doc comment is read above the declaration that directly contains the hovered name")
    ft = [(i, t) for i, t in eb.calls() if (Body.callee(t) or "").endswith("SyntaxNode::<L>::first_token")]
    ck.anchor(ft, "extract_doc_comments: first_token() of the declaration node not found")

    in_loop = set()
    for _, bl in cfg.loops(eb):
        in_loop |= set(bl)

    def steps(op, stack=()):
        """set of parent-step counts from the identifier node, or None if something other than a bounded number of
        parent() calls is involved (the node variable is reassigned, so the flow-insensitive provenance of a parent() call
        can contain itself: that is a repetition only if the call sits in a loop)"""
        out = set()
        for o in prov.origins(eb, op):
            if o[0] != "call":
                return None
            name = str(o[1])
            if name.endswith("SyntaxNode::<L>::parent"):
                if o[2] in stack:
                    if o[2] in in_loop:
                        return None
                    continue
                if len(stack) > 8:
                    return None
                sub = steps(eb.term(o[2])["args"][0], stack + (o[2],))
                if sub is None:
                    return None
                out |= {n + 1 for n in sub}
            elif name.endswith("::into_node") or name.endswith("NodeOrToken<rowan::api::SyntaxNode<L>, rowan::api::SyntaxToken<L>>>::parent"):
                out.add(0)              # the Identifier node itself (the covering element, or the parent of its Id token)
            else:
                return None
        return out
    for i, t in ft:
        st = steps(t["args"][0])
        ck.ob("R19.5", "doc-owner", st is not None and 1 in st and st <= {1, 3},
              "the declaration node is the identifier's parent (3rd parent through Value > InnerValue): steps %s" % (sorted(st) if st else st),
              msg="hover::extract_doc_comments takes the comment block of a node that is not reached from the hovered name by "
                  "the fixed parent steps (1, or 3 through Value > InnerValue) [%s]: a search for an enclosing declaration "
                  "attaches the enclosing record's comment to template arguments, iterators and operator variables" % eb.where(i))
