"""C11 Published diagnostics converge — necessary structural conditions."""
import re

from .. import cfg, prov, locks
from ..facts import Body, op_local, op_const
from ..callgraph import callgraph
from .c09 import all_origins, file_class

EXEC = "ide::handlers::diagnostics::exec"
TASK = "lsp::server::Server::update_diagnostics::{closure#0}"
PUBLISH = "<async_lsp::ClientSocket as async_lsp::LanguageClient>::publish_diagnostics"


def _deep_origins(prog, body, operand, depth=0):
    """origins of an operand, followed through the receivers/arguments of the calls they come from (bounded)"""
    out = set()
    todo = [(operand, 0)]
    seen = set()
    while todo:
        op, d = todo.pop()
        for x in prov.origins(body, op):
            if x in seen:
                continue
            seen.add(x)
            out.add(x)
            if x[0] == "call" and d < 5:
                for a in body.term(x[2])["args"]:
                    todo.append((a, d + 1))
    return out


def run(ck, prog):
    ck.explanation = (
        "Convergence over all histories and schedules is not a static statement. Decided necessary conditions "
        "on the MIR: (R11.1) diagnostics::exec seeds the result map with an (empty) entry for every file of "
        "SourceRoot::iter_files(), unfiltered, so a file whose last problem was fixed is re-published as clean; "
        "(R11.2) the diagnostics task reaches publish_diagnostics for every entry of Analysis::diagnostics() on "
        "every path of the loop body (no skip, no filter, no early exit), with the entry's own list; (R11.3) "
        "versions never decrease: the version is the value of a counter that only bump_diagnostic_version "
        "changes (+1), read on the main loop, and every update_diagnostics call is preceded on the main loop by "
        "a salsa input write, which (salsa contract) waits until every earlier task has dropped its snapshot, "
        "i.e. until after it published - so tasks publish in version order; publishing happens inside the "
        "closure that owns the snapshot; (R11.4) files that left the workspace are published an empty list; "
        "(R11.5) Server::set_file_content reaches set_root_file on every path. Not decided: equality with the "
        "diagnostics of the final state, quiescence.")
    ck.trusted = ["salsa 0.16: an input write waits for all outstanding snapshots", "async-lsp delivers notifications in call order"]
    for r, t in (("R11.1", "every workspace file gets a map entry"), ("R11.2", "every map entry is published"),
                 ("R11.3", "versions are monotone and tasks are serialised by the salsa write")):
        ck.rule(r, t)
    cg = callgraph(prog)

    # ---- R11.1 -------------------------------------------------------------------
    b = prog.body(EXEC)
    ck.anchor(b is not None, "diagnostics::exec not found")
    loops = cfg.loops(b)
    seeded = False
    for h, bl in loops:
        nxt = [i for i in bl if b.term(i)["k"] == "call" and re.search(r"Iterator>::next$", Body.callee(b.term(i)) or "")]
        ins = [i for i in bl if b.term(i)["k"] == "call" and re.search(r"HashMap::<[^>]*>::insert$", Body.callee(b.term(i)) or "")]
        if not ins:
            # `map.entry(file).or_default()` / `.or_insert(..)` / `.or_insert_with(..)` creates the entry as well
            ent = [i for i in bl if b.term(i)["k"] == "call" and re.search(r"HashMap::<[^>]*>::entry$", Body.callee(b.term(i)) or "")]
            mk = [i for i in bl if b.term(i)["k"] == "call" and re.search(r"Entry::<[^>]*>::(or_default|or_insert|or_insert_with)$", Body.callee(b.term(i)) or "")]
            if ent and mk and all(any(x[0] == "call" and x[2] in ent for x in prov.origins(b, b.term(m)["args"][0])) for m in mk):
                ins = ent
        if not nxt or not ins:
            continue
        io = prov.origins(b, b.term(nxt[0])["args"][0])
        from_files = any(x[0] == "call" and x[1].endswith("SourceRoot::iter_files") for x in io)
        ko = prov.origins(b, b.term(ins[0])["args"][1])
        key_is_elem = all(x[0] == "call" and re.search(r"Iterator>::next$", x[1]) for x in ko)
        # unconditional: no path from the Some arm back to next() avoiding the insert
        skip = cfg.path_exists(b, nxt[0], lambda x: x == nxt[0], avoid=set(ins) | (set(range(len(b.blocks))) - set(bl)))
        adaptors = [Body.callee(t) for _, t in b.calls() if re.search(r"Iterator::(filter|take|skip|step_by|take_while|skip_while|filter_map)$", Body.callee(t) or "")]
        if from_files and key_is_elem and skip is None and not adaptors:
            seeded = True
    if not seeded:
        # closure form: iter_files().for_each(|file| { map.insert(file, ..) / map.entry(file).or_default() })
        for i, tt in b.calls():
            c = Body.callee(tt) or ""
            if not c.endswith("Iterator::for_each"):
                continue
            if not any(x[0] == "call" and x[1].endswith("SourceRoot::iter_files") for x in prov.origins(b, tt["args"][0])):
                continue
            for ga in (tt["f"].get("args") or []):
                cb = prog.body(ga.get("closure")) if isinstance(ga, dict) and ga.get("closure") else None
                if cb is None:
                    continue
                w = [j for j, t2 in cb.calls() if re.search(r"HashMap::<[^>]*>::(insert|entry)$", Body.callee(t2) or "")]
                if w and all(all(x[0] == "arg" and x[1] == 2 for x in prov.origins(cb, cb.term(j)["args"][1])) for j in w) and \
                        cfg.path_exists(cb, 0, lambda x: cb.term(x)["k"] == "return", avoid=set(w), include_src=True) is None:
                    seeded = True
    ck.ob("R11.1", "seed-all-files", seeded,
          "a loop over SourceRoot::iter_files() inserts an entry for every element unconditionally",
          msg="diagnostics::exec does not seed an entry for every file of the source root: a file that became clean "
              "(or an included file) is never re-published and keeps its stale diagnostics in the editor")
    # the seeding precedes the distribution of diagnostics (entry().or_insert cannot lose it either way)
    # ---- R11.2 -------------------------------------------------------------------
    t = prog.body(TASK)
    ck.anchor(t is not None, "diagnostics task closure not found")
    pubs = {i for i, tt in t.calls() if Body.callee(tt) == PUBLISH}
    ck.anchor(pubs, "publish_diagnostics call not found in the diagnostics task")
    ok = False
    detail = ""
    for h, bl in cfg.loops(t):
        nxt = [i for i in bl if t.term(i)["k"] == "call" and re.search(r"Iterator>::next$", Body.callee(t.term(i)) or "")]
        if not nxt or not (pubs & set(bl)):
            continue
        io = prov.origins(t, t.term(nxt[0])["args"][0])
        whole = any(x[0] == "call" and x[1].endswith("Analysis::diagnostics") for x in io)
        skip = cfg.path_exists(t, nxt[0], lambda x: x == nxt[0], avoid=pubs | (set(range(len(t.blocks))) - set(bl)))
        # leaving the loop other than through next()==None
        tests = {t.term(n)["t"] for n in nxt}
        early = [i for i in bl for s in t.succ(i) if s not in bl and i not in tests and t.term(s)["k"] != "unreachable"]
        adaptors = [Body.callee(tt) for _, tt in t.calls() if re.search(r"Iterator::(filter|take|skip|step_by|take_while|skip_while)$", Body.callee(tt) or "")]
        ok = whole and skip is None and not early and not adaptors
        detail = "iterates Analysis::diagnostics(): %s; skip path: %s; early exits: %s; adaptors: %s" % (whole, skip, early, adaptors)
    ck.ob("R11.2", "publish-every-entry", ok, detail,
          msg="the diagnostics task does not publish every (file, diagnostics) entry on every path (%s): a file whose "
              "diagnostics are skipped keeps whatever was published before" % detail)
    # the published list is the entry's own list converted (not filtered); an empty list is published only for a
    # file that does not come from the current result (a file that left the workspace, R11.4)
    clearing = []
    for i in sorted(pubs):
        po = all_origins(prog, t, t.term(i)["args"][1])
        built = [x for bp, x in po if x[0] == "call" and x[1].endswith("PublishDiagnosticsParams::new")]
        okl = False
        for x in built:
            tt = t.term(x[2])
            lo = prov.origins(t, tt["args"][1])
            uo = prov.origins(t, tt["args"][0])
            if lo and all(y[0] == "call" and re.search(r"Vec::<T>::new$|Vec::<T, A>::new$|Default>::default$", y[1]) for y in lo):
                # a clearing publication: its file must not be an entry of the current result
                from_result = any("Analysis::diagnostics" in str(z) for z in _deep_origins(prog, t, tt["args"][0]))
                okl = not from_result
                clearing.append((i, uo))
            else:
                okl = all(y[0] == "call" and y[1].endswith("Iterator::collect") for y in lo)
        ck.ob("R11.2", "published-list#%d" % sorted(pubs).index(i), okl,
              "the published list is the collected conversion of the entry's diagnostics (or an empty list for a file "
              "outside the current result)",
              msg="the diagnostics task publishes something other than the converted list of the entry")

    # ---- R11.4 -------------------------------------------------------------------
    # a file that is no longer part of the workspace is cleared: the task must publish for files it is told about by
    # the main loop, which must derive them from what it remembered of the previous round
    ck.rule("R11.4", "files that left the workspace are published an empty list")
    ub4 = prog.body("lsp::server::Server::update_diagnostics")
    ck.anchor(ub4 is not None, "update_diagnostics not found")
    remembered = False
    for i, tt in ub4.calls():
        c = Body.callee(tt) or ""
        if re.search(r"HashSet::<[^>]*>::difference$|HashSet::<[^>]*>::(retain|remove|contains)$|HashMap::<[^>]*>::(remove|contains_key)$", c):
            o = set()
            for a in tt["args"]:
                o |= set(prov.origins(ub4, a))
            if any(x[0] == "arg" and x[1] == 1 and x[2] for x in o):
                remembered = True
    ck.ob("R11.4", "previous-round-remembered", remembered,
          "update_diagnostics compares the workspace files with a set kept in the server from the previous round",
          msg="update_diagnostics keeps no record of the files it published for before: a file that leaves the workspace "
              "(its include statement is removed) keeps its last diagnostics in the editor for ever")
    ck.ob("R11.4", "dropped-files-cleared", bool(clearing),
          "the task publishes an empty list for files handed to it from outside the current result",
          msg="the diagnostics task never publishes an empty list for a file outside the current result: files that left "
              "the workspace are never cleared")

    # ---- R11.5 -------------------------------------------------------------------
    # the workspace whose diagnostics are published is the one rooted at the document touched last: every didOpen /
    # didChange re-roots (no "unchanged text" shortcut around AnalysisHost::set_root_file)
    ck.rule("R11.5", "every document notification re-roots the workspace before diagnostics are recomputed")
    ssb = prog.body("lsp::server::Server::set_file_content")
    ck.anchor(ssb is not None, "Server::set_file_content not found")
    roots = {i for i, tt in ssb.calls() if Body.callee(tt) == "ide::analysis::AnalysisHost::set_root_file"}
    skip = cfg.path_exists(ssb, 0, lambda y: ssb.term(y)["k"] == "return", avoid=roots, include_src=True)
    ck.ob("R11.5", "always-reroots", bool(roots) and skip is None,
          "Server::set_file_content reaches AnalysisHost::set_root_file on every path",
          msg="Server::set_file_content can return without AnalysisHost::set_root_file%s: the workspace stays rooted at the "
              "document touched before, update_diagnostics then republishes that workspace and the final state's diagnostics "
              "never appear" % (" [%s]" % ssb.where(skip[-1]) if skip else ""))

    # ---- R11.3 -------------------------------------------------------------------
    ub = prog.body("lsp::server::Server::update_diagnostics")
    ck.anchor(ub is not None, "update_diagnostics not found")
    # version operand of PublishDiagnosticsParams::new <- captured variable <- bump_diagnostic_version()
    vers_ok = False
    for i, tt in t.calls():
        if (Body.callee(tt) or "").endswith("PublishDiagnosticsParams::new"):
            vo = all_origins(prog, t, tt["args"][2])
            vers_ok = bool(vo) and all(x[0] == "call" and x[1] == "lsp::server::Server::bump_diagnostic_version" for bp, x in vo)
    ck.ob("R11.3", "version-source", vers_ok, "the published version is the value returned by bump_diagnostic_version on the main loop",
          msg="the published diagnostics version does not come from the server's own monotone counter "
              "(bump_diagnostic_version): versions may decrease or repeat across files")
    bb = prog.body("lsp::server::Server::bump_diagnostic_version")
    ck.anchor(bb is not None, "bump_diagnostic_version not found")
    incs = 0
    other = 0
    for p, body in prog.bodies.items():
        if body.crate != "lsp.rlib":
            continue
        for blk in body.blocks:
            for s in blk["s"]:
                a = s.get("a")
                if a and a["p"] and isinstance(a["p"][-1], dict) and a["p"][-1].get("n") == "diagnostic_version":
                    if p == bb.path:
                        incs += 1
                    elif not p.endswith("Server::new"):
                        other += 1
    mono = incs >= 1 and other == 0 and any(
        (s.get("rv") or {}).get("binop") == "AddWithOverflow" and (op_const((s.get("rv") or {}).get("b")) or {}).get("int") == 1
        for blk in bb.blocks for s in blk["s"])
    ck.ob("R11.3", "counter-monotone", mono, "diagnostic_version is only changed by bump_diagnostic_version (+1)",
          msg="the diagnostics version counter is modified outside bump_diagnostic_version or not by +1")
    # every caller of update_diagnostics writes a salsa input first (dominating)
    lm = locks.LockModel(prog)
    n = 0
    for cb, i, tt in prog.call_sites(lambda c: c == ub.path):
        n += 1
        dom = cfg.dominators(cb)
        writes = [j for j, t2 in cb.calls() if j in dom[i] and j != i and
                  (locks.REV, "X") in lm.summary(Body.callee(t2) or "") if Body.callee(t2) in prog.bodies]
        ck.ob("R11.3", "serialised:%s" % cb.path, bool(writes),
              "update_diagnostics in %s is preceded by a salsa input write (waits for earlier tasks' snapshots)" % cb.path,
              msg="%s spawns a diagnostics task without a preceding salsa input write: two tasks can overlap and the "
                  "older result can be published after the newer one (version decreases)" % cb.path)
    ck.floor("R11.3", "update_diagnostics call sites", n, 2)
    # publishing happens in the task that owns the snapshot (before it is dropped)
    spawn_roots = [e.target for es in cg.out.values() for e in es if e.kind == "spawn"]
    in_task = any(TASK in cg.reachable([r]) for r in spawn_roots)
    owns = t.argc >= 2 and "ServerSnapshot" in t.local_ty(2)
    ck.ob("R11.3", "publish-under-snapshot", in_task and owns,
          "publish_diagnostics runs inside the spawned closure that owns the ServerSnapshot",
          msg="publishing no longer happens inside the task that owns the snapshot: the ordering argument is lost")

    # shared with C12 (same defect seen from here): the editor's text is recorded before anything re-reads files
    from .c12 import overlay_tables, overlay_before_reread, SERVER_SET as _SS
    from ..callgraph import callgraph as _cgf
    _cg = _cgf(prog)
    _sb = prog.body(_SS)
    ck.anchor(_sb is not None, "Server::set_file_content not found")
    _ri, _ow = overlay_tables(prog, _cg)
    ck.rule("R11.6", "diagnostics are computed from the text the editor sent: it is in the open-document table before the include walk re-reads files")
    overlay_before_reread(ck, prog, _cg, _sb, _ow, _ri, "R11.6")
