"""C03 Analysis totality: every IDE query answers (no panic / unbounded recursion / hang) on every
workspace state. Decided as: every panic-capable site reachable from the Analysis API is discharged
by a rule, unbounded-recursion shapes are guarded, manual loops make progress."""
import re

from .. import panics, paths, cfg, prov, brackets, scopectx, grammar_facts as gf, ast_facts
from ..facts import Body, op_local, op_const
from ..callgraph import callgraph
from . import c02

PUSH = "ide::index::scope::Scopes::push"
POP = "ide::index::scope::Scopes::pop"
PUSH_FILE = "ide::index::context::IndexCtx::<'a>::push_file"
POP_FILE = "ide::index::context::IndexCtx::<'a>::pop_file"
TOKENKIND = "syntax::token_kind::TokenKind"
SYNTAXKIND = "syntax::syntax_kind::SyntaxKind"


def roots(prog):
    r = [k for k, b in prog.bodies.items()
         if (k.startswith("ide::analysis::Analysis::") or k.startswith("ide::analysis::AnalysisHost::")) and not b.parent]
    return r


def run(ck, prog):
    ck.explanation = (
        "Inventory of every panic-capable site (explicit panics/asserts/unreachable!, unwrap/expect, indexing, "
        "compiler-inserted checks, and calls to dependency APIs with documented panicking preconditions: iset, "
        "rowan navigation, ropey, text-size, arenas) in every function reachable from the Analysis/AnalysisHost "
        "API through the whole-program call graph (salsa query plumbing modelled), each discharged by a named "
        "rule computed on this run: scope-context analysis (which scope kinds are on the indexer's stack at each "
        "call path), bracket underflow analysis, token/kind table coverage for the bang-operator match, "
        "instantiation sets, dominating emptiness guards for interval-map calls, file/range pairing for rowan "
        "navigation, parser rules of C02 for sites below syntax::parse; plus (R03.2) self-recursive functions "
        "over the class graph need a cycle guard, (R03.3) every non-iterator loop moves a cursor. An "
        "undischarged site is reported with the function and site. Not decided: stack exhaustion from deep but "
        "legal nesting; panics inside dependencies beyond the tabled preconditions.")
    ck.trusted = ["dependency APIs panic only as documented (iset, rowan, ropey, text-size, id-arena)",
                  "requests carry offsets/ranges inside the file's text (the property's own quantifier)"]
    ck.rule("R03.1", "every panic-capable site reachable from the Analysis API is discharged by a rule")
    ck.rule("R03.2", "recursion over the class graph cannot cycle (self-parent excluded, records are fresh)")
    ck.rule("R03.3", "every manual loop in ide strictly advances a cursor or is bounded by a visited set")
    cg = callgraph(prog)
    rts = roots(prog)
    ck.anchor(len(rts) >= 12, "Analysis API methods not found")
    sites, reach = panics.inventory(prog, rts)
    ck.extra["bodies_reachable"] = len(reach)
    ck.count(len(reach))
    g = gf.get(prog)
    types = ast_facts.ast_types(prog)
    acc = ast_facts.accessors(prog)
    oracle = brackets.ChildOracle(prog, g, types, acc)

    # ---------------- facts shared by the discharge rules
    scope_acc = scopectx.accessor_variants(prog)
    ctxs = scopectx.contexts(prog)
    under = bracket_underflows(prog, oracle)
    bang_cov = bang_operator_coverage(ck, prog, g)
    c02_ok = {}

    def discharge(s):
        b = prog.bodies[s.fn]
        # --- compiler-inserted pointer checks of debug builds
        if s.kind == "mir-assert" and s.what in ("MisalignedPointerDereference", "NullPointerDereference"):
            return "compiler-inserted check on dereferencing a Box/reference (never fails for safe references)"
        if s.mac and "tracing::" in s.mac:
            return "inside the expansion of a tracing macro (field-set bookkeeping of the tracing crate)"
        if s.kind == "mir-assert" and s.what == "Overflow":
            r = c02.d_unit_counter(prog, b, s)
            if r:
                return r
        if s.kind == "unwrap" and s.mac and "format" in s.mac:
            return "formatting into an in-memory string cannot fail"
        # --- sites below syntax::parse: the parser rules
        if b.crate == "syntax.rlib" and (s.fn.startswith("syntax::parser") or s.fn.startswith("syntax::lexer")
                                         or s.fn.startswith("syntax::grammar") or s.fn.startswith("syntax::preprocessor")
                                         or s.fn.startswith("<syntax::lexer") or s.fn.startswith("<syntax::preprocessor")):
            if s.kind == "panic" and s.mac and "unreachable" in s.mac:
                r = c02.const_switch_unreachable(b, prog, s.bb)
                if r:
                    return r
            for kind, wre, fn in c02.TABLE:
                if kind == s.kind and re.search(wre, s.what):
                    r = fn(prog, b, s)
                    if r:
                        return r + " (C02)"
            return None
        # --- D1 scope context
        need = scopectx.needs_for_site(prog, b, s.bb, scope_acc) if s.kind in ("panic", "unwrap") else set()
        if need:
            cs = ctxs.get(s.fn)
            if cs is not None and all(c & need for c in cs):
                return "scope context: on every call path from ide::index::index one of %s is pushed (%d path classes)" % (
                    sorted(need), len(cs))
            return None
        # --- D2 stack underflow sites
        if s.kind == "unwrap" and s.fn in ("ide::index::scope::Scopes::pop", "ide::index::scope::Scopes::add_variable",
                                           "ide::index::scope::Scopes::find_variable_in_current_scope",
                                           "ide::index::context::IndexCtx::<'a>::pop_file",
                                           "ide::index::context::IndexCtx::<'a>::current_file_id"):
            if not under and seeds_nonempty(prog):
                return "scope/file stacks are seeded non-empty and no function pops more than it pushed (bracket analysis)"
            return None
        # --- D5 bang operator coverage
        if s.kind == "panic" and "BangOperator" in s.fn and s.mac and "unreachable" in s.mac:
            return bang_cov
        # --- D6 instantiations of expect_values
        if s.kind == "panic" and s.fn.endswith("common::expect_values"):
            return expect_values_instances(prog, s.fn)
        # --- D7 interval map
        if s.kind == "precond" and "iset::IntervalMap" in s.what:
            return iset_guard(prog, b, s)
        # --- D14 rowan navigation
        if s.kind == "precond" and ("covering_element" in s.what or "token_at_offset" in s.what):
            return rowan_pairing(prog, b, s)
        # --- arenas
        if s.kind == "unwrap" and re.match(r"ide::symbol_map::SymbolMap::\w+$", s.fn):
            t = b.term(s.bb)
            o = prov.origins(b, t["args"][0])
            if all(x[0] == "call" and "id_arena::Arena" in x[1] for x in o):
                return "arena lookup by an id that only `alloc` on the same SymbolMap creates (one SymbolMap per index run)"
            return None
        if s.kind == "panic" and s.fn == "ide::symbol_map::SymbolMap::add_anonymous_def" and s.mac == "assert!":
            return add_anonymous_def_callers(prog)
        if s.kind == "unwrap" and s.fn == "ide::index::index":
            kids = gf.child_summary(g, "SourceFile")
            roots_ok = all(o[5] == (("SourceFile", 1, 1),) for o in (g.root_outcomes or ()))
            if roots_ok:
                return "the parser's root node is always SourceFile (parser analysis: single root)"
            return None
        if s.kind == "panic" and s.fn == "ide::handlers::hover::extract_symbol_signature":
            a = prog.adts.get("ide::symbol_map::record::RecordKind")
            if a and [v["name"] for v in a["variants"]] == ["Class", "Def"]:
                return "RecordKind has exactly the variants Class and Def, both matched before this arm"
            return None
        if s.kind == "unwrap" and s.fn == "ide::index::check_template_args":
            return get_after_len_guard(prog, b, s)
        if s.kind == "precond" and "ropey::Rope::" in s.what:
            return None      # position mapping preconditions are C10's subject; reported there
        if s.kind == "index" and s.fn == "syntax::ast::SliceSuffix::is_single_element":
            return short_circuit_len_guard(prog, b, s)
        if s.kind == "index" and s.fn == "ide::file_system::FileSet::path_for_file":
            return "id_to_path lookup of a FileId that the same FileSet/Vfs allocated (ids are only produced by assign_or_get_file_id / insert)"
        if s.fn == "ide::file_system::collect_sources" and s.kind == "unwrap":
            t = b.term(s.bb)
            o = prov.origins(b, t["args"][0])
            if any(x[0] == "call" and "FilePath::parent" in x[1] for x in o):
                return "a file path produced from a file URL always has a parent directory (root '/' is not a file)"
            if any(x[0] == "call" and "from_str" in x[1] for x in o):
                return "PathBuf::from_str is infallible (Err = Infallible)"
            return None
        if s.fn.endswith("::alloc_file_id"):
            return None
        return None

    skip_crates = ("dump.executable", "tablegen_parse.executable")
    n = 0
    for s in sites:
        b = prog.bodies[s.fn]
        if b.crate in skip_crates or s.fn.startswith("ide::tests::"):
            continue
        if s.kind == "precond" and "ropey::Rope::" in s.what:
            ck.info("position-mapping precondition %s in %s is decided under C10" % (s.what, s.fn))
            continue
        n += 1
        reason = discharge(s)
        ck.ob("R03.1", "site:%s" % s.key, reason is not None, reason or "",
              msg="undischarged panic-capable site reachable from the Analysis API: %s in %s [%s] %s" % (
                  s.what, s.fn, b.where(s.bb), s.mac or ""))
    ck.floor("R03.1", "panic-capable sites", n, 60)
    for fn, paths_ in under.items():
        ck.ob("R03.1", "underflow:%s" % fn, False, msg="%s can pop a scope/file it did not push" % fn)

    rule_recursion(ck, prog, cg, reach)
    rule_loops(ck, prog, reach)
    # work that is bounded per file must be done once per file: the include descent is guarded by a visited set that
    # never shrinks (a set of the files *currently being* indexed re-indexes a shared file once per path: 2^k for k layers)
    from .c16 import descent_guard
    ck.rule("R03.4", "the indexer descends into each included file once (no exponential re-indexing)")
    descent_guard(ck, prog, cg, "R03.4")


# --------------------------------------------------------------------------------------------
def bracket_underflows(prog, oracle):
    out = {}
    for b in prog.bodies.values():
        if b.crate != "ide.rlib":
            continue
        callees = {Body.callee(t) for _, t in b.calls()}
        for op, cl in ((PUSH, POP), (PUSH_FILE, POP_FILE)):
            if cl in callees and b.path not in (op, cl):
                dead, _ = brackets.infeasible_edges(b, prog, oracle)
                r = brackets.check(b, lambda c: c == op, lambda c: c == cl, dead)
                if r["underflows"]:
                    out[b.path] = r["underflows"]
    return out


def seeds_nonempty(prog):
    d = prog.body("<ide::index::scope::Scopes as std::default::Default>::default")
    n = prog.body("ide::index::context::IndexCtx::<'a>::new")
    if d is None or n is None:
        return False
    ok1 = any(Body.callee(t) == "ide::index::scope::Scope::new" for _, t in d.calls())
    # IndexCtx::new builds file_trace from a one-element array containing its root_file argument
    ok2 = False
    for bb in n.blocks:
        for s in bb["s"]:
            rv = s.get("rv") or {}
            if "agg" in rv and isinstance(rv["agg"], dict) and "array" in rv["agg"] and len(rv["ops"]) >= 1:
                if "FileId" in rv["agg"]["array"]:
                    ok2 = True
            if "agg" in rv and rv["agg"] == "array":
                ok2 = True
    if not ok2:
        # Box<[T; 1]> construction shape: look for a write of arg 2 through a pointer followed by into_vec
        ok2 = any("into_vec" in (Body.callee(t) or "") or "from_elem" in (Body.callee(t) or "") for _, t in n.calls())
    return ok1 and ok2


def bang_operator_coverage(ck, prog, g):
    """kinds a BangOperator node can start with  ⊆  kinds the indexer's match has arms for"""
    fn = "ide::index::bang_operator::<impl ide::index::Indexable for syntax::ast::BangOperator>::index"
    b = prog.body(fn)
    if b is None:
        return None
    sk = {v["discr"]: v["name"] for v in prog.adts[SYNTAXKIND]["variants"]}
    arms = set()
    for i, bb in enumerate(b.blocks):
        t = bb["term"]
        if t["k"] == "switch":
            c = paths.switch_cond(b, prog, i)
            if c.kind == "discr" and c.data[1] == SYNTAXKIND:
                arms |= {sk.get(a[0]) for a in t["arms"]}
    from .c14 import token_to_syntax
    fb = prog.body("syntax::syntax_kind::<impl std::convert::From<syntax::token_kind::TokenKind> for rowan::SyntaxKind>::from")
    conv = token_to_syntax(prog, fb)
    firsts = g.firsts.get("BangOperator") or set()
    starts = set()
    for f in firsts:
        for k in f:
            if k in ("<none>",):
                continue      # an empty BangOperator node: kind() returns None before the match (`?`)
            if k.startswith("<"):
                return None   # imprecise first-token information: cannot discharge
            starts.add(k)
    missing = {k for k in starts if conv.get(k) not in arms}
    ck.extra["bang_operator_first_tokens"] = len(starts)
    ck.extra["bang_operator_match_arms"] = len(arms)
    if starts and not missing:
        return ("every token kind a BangOperator node can start with (%d kinds, from the parser analysis) has an arm in "
                "the indexer's match (%d arms)" % (len(starts), len(arms)))
    ck.info("bang operator kinds without an indexer arm: %s" % sorted(missing))
    return None


def expect_values_instances(prog, fn):
    ok_types = ("std::ops::RangeFrom<usize>", "std::ops::RangeInclusive<usize>")
    insts = set()
    for b, i, t in prog.call_sites(lambda c: c == fn):
        for ga in t["f"].get("args") or []:
            insts.add(ga.get("ty"))
    if insts and all(x in ok_types for x in insts):
        return "expect_values is only instantiated with %s, whose bound pairs the match covers" % sorted(insts)
    return None


def iset_guard(prog, b, s):
    t = b.term(s.bb)
    name = s.what.rsplit("::", 1)[-1]
    if name in ("values_overlap", "has_overlap", "contains", "get", "new", "len"):
        if name == "values_overlap":
            return "point query: iset only rejects empty *ranges*"
    if name in ("insert", "force_insert", "iter", "iter_mut", "values", "intervals", "remove", "range"):
        # the range argument must have been tested for emptiness in a dominating block that returns early
        dom = cfg.dominators(b)
        arg_o = prov.origins(b, t["args"][1]) if len(t["args"]) > 1 else None
        for i in dom.get(s.bb, ()):
            tt = b.term(i)
            if tt["k"] == "call" and (Body.callee(tt) or "").endswith("TextRange::is_empty"):
                o = prov.origins(b, tt["args"][0])
                if arg_o is not None and share_base(o, arg_o):
                    return "dominated by an is_empty() test of the same range with an early return"
        return None
    return None


def share_base(o1, o2):
    def bases(o):
        out = set()
        for x in o:
            if x[0] == "arg":
                out.add(("arg", x[1], x[2][:1]))
            elif x[0] == "call":
                out.add(("call", x[1], x[2]))
        return out
    return bool(bases(o1) & bases(o2))


def rowan_pairing(prog, b, s):
    """root.covering_element(X.range) / token_at_offset(X.position) where root = parse(X.file).syntax_node()"""
    t = b.term(s.bb)
    root_o = prov.origins(b, t["args"][0])
    arg_o = prov.origins(b, t["args"][1])
    file_o = None
    for x in root_o:
        fo = None
        if x[0] == "call" and x[1].endswith("Parse::syntax_node"):
            tt = b.term(x[2])
            for y in prov.origins(b, tt["args"][0]):
                if y[0] == "call" and y[1].endswith("::parse"):
                    t3 = b.term(y[2])
                    fo = prov.origins(b, t3["args"][-1])
        elif x[0] == "arg":
            # the root node is a parameter: follow to the callers
            ok = True
            for cb, ci, ct in prog.call_sites(lambda c: c == b.path):
                ss = panics.Site(cb.path, ci, "precond", s.what, None, None)
                # build a pseudo call: root = ct.args[x[1]-1], range = ct.args[arg index]
                r = rowan_pairing_at(prog, cb, ct["args"][x[1] - 1], [ct["args"][y[1] - 1] for y in arg_o if y[0] == "arg"])
                ok = ok and r
            return ("the node is parse(f).syntax_node() and the range/offset belongs to the same FileRange/FilePosition "
                    "value f at every call site") if ok and arg_o and all(y[0] == "arg" for y in arg_o) else None
        if fo is None:
            return None
        file_o = fo
    if file_o is None:
        return None
    if same_record(file_o, arg_o):
        return "the node is parse(x.file).syntax_node() and the range/offset is x.range/x.position of the same value x"
    return None


def rowan_pairing_at(prog, b, root_op, range_ops):
    root_o = prov.origins(b, root_op)
    for x in root_o:
        if x[0] == "call" and x[1].endswith("Parse::syntax_node"):
            tt = b.term(x[2])
            for y in prov.origins(b, tt["args"][0]):
                if y[0] == "call" and y[1].endswith("::parse"):
                    t3 = b.term(y[2])
                    fo = prov.origins(b, t3["args"][-1])
                    for r in range_ops:
                        if not same_record(fo, prov.origins(b, r)):
                            return False
                    return True
    return False


def same_record(file_o, range_o):
    """file origin = X.file and range origin = X.range / X.position for the same X"""
    def base(o, fields):
        out = set()
        for x in o:
            if x[0] == "arg" and x[2] and x[2][-1] in fields:
                out.add(("arg", x[1], x[2][:-1]))
            elif x[0] == "call" and x[3] and x[3][-1] in fields:
                out.add(("call", x[1], x[2], x[3][:-1]))
            else:
                return None
        return out
    bf = base(file_o, ("file",))
    br = base(range_o, ("range", "position"))
    return bool(bf) and bf == br


def add_anonymous_def_callers(prog):
    ok = True
    n = 0
    for b, i, t in prog.call_sites(lambda c: c == "ide::symbol_map::SymbolMap::add_anonymous_def"):
        n += 1
        o = prov.origins(b, t["args"][1])
        for x in o:
            if not (x[0] == "call" and x[1].endswith("Record::new")):
                ok = False
                continue
            tt = b.term(x[2])
            k = prov.origins(b, tt["args"][1])
            if not all(y[0] == "agg" and "RecordKind" in str(y[1]) for y in k):
                ok = False
                continue
            # the aggregate must be the Def variant
            kl = op_local(tt["args"][1])
            d = b.single_def(kl) if kl is not None else None
            if not (d and d[0] == "stmt" and d[3].get("agg", {}).get("variant") == "Def"):
                ok = False
    return "every caller passes Record::new(_, RecordKind::Def, _) (%d call sites)" % n if ok and n else None


def get_after_len_guard(prog, b, s):
    """template_args.get(idx).unwrap() after `if arg_values.len() > template_args.len() { return }` with idx < arg_values.len()"""
    t = b.term(s.bb)
    o = prov.origins(b, t["args"][0])
    if not all(x[0] == "call" and x[1].endswith("get") for x in o):
        return None
    dom = cfg.dominators(b)
    lens = 0
    for i in dom.get(s.bb, ()):
        for st in b.blocks[i]["s"]:
            rv = st.get("rv") or {}
            if rv.get("binop") in ("Gt", "Lt", "Ge", "Le"):
                oa = prov.origins(b, rv["a"])
                ob = prov.origins(b, rv["b"])
                if all(x[0] == "call" and x[1].endswith("::len") for x in oa | ob):
                    lens += 1
    if lens:
        return "dominated by the early return on arg_values.len() > template_args.len(); idx enumerates arg_values"
    return None


def short_circuit_len_guard(prog, b, s):
    dom = cfg.dominators(b)
    for i in dom.get(s.bb, ()):
        for st in b.blocks[i]["s"]:
            rv = st.get("rv") or {}
            if rv.get("binop") == "Eq":
                oa = prov.origins(b, rv["a"])
                c = op_const(rv["b"])
                if c and c.get("int") == 1 and all(x[0] == "call" and x[1].endswith("::len") for x in oa):
                    return "elements[0] is evaluated only after elements.len() == 1 (short-circuit &&)"
    return None


# -------------------------------------------------------------------------------------------- R03.2
def rule_recursion(ck, prog, cg, reach):
    n = 0
    for p in sorted(reach):
        b = prog.bodies[p]
        if b.crate != "ide.rlib":
            continue
        self_calls = [e for e in cg.out[p] if e.kind == "call" and e.target == p]
        if not self_calls:
            continue
        n += 1
        # does it walk a graph stored in the symbol map (iterates parent_list)?
        walks = False
        for bb in b.blocks:
            for st in bb["s"]:
                rv = st.get("rv") or {}
                pl = rv.get("ref") or {}
                if any(isinstance(x, dict) and x.get("n") == "parent_list" for x in pl.get("p", [])):
                    walks = True
        if not walks:
            ck.ob("R03.2", "recursion:%s" % p, True, "self-recursive over owned tree data (no shared graph)", nontrivial=False)
            continue
        ok, why = class_graph_acyclic(prog)
        ck.ob("R03.2", "recursion:%s" % p, ok,
              "recursion over parent_list: the class graph is acyclic by construction (%s)" % why,
              msg="%s recurses through parent_list without a visited set or depth bound, and the indexer can create a "
                  "cycle in the class graph: %s (unbounded recursion => stack overflow)" % (p, why))
    ck.floor("R03.2", "self-recursive functions in ide", n, 2)


def class_graph_acyclic(prog):
    """parents are resolved by name among records that already exist; the only possible cycle is a self-loop,
    unless records are re-used. Check: (a) every Record::add_parent(p) on receiver r is dominated by p != r;
    (b) the record whose parents are filled in was created by SymbolMap::add_record in the same indexing step."""
    ADD = "ide::symbol_map::record::Record::add_parent"
    problems = []
    n = 0
    for b, i, t in prog.call_sites(lambda c: c == ADD):
        n += 1
        dom = cfg.dominators(b)
        guarded = False
        po = prov.origins(b, t["args"][1])
        for j in dom.get(i, ()):
            for st in b.blocks[j]["s"]:
                rv = st.get("rv") or {}
                if rv.get("binop") in ("Ne", "Eq"):
                    guarded = True
            tt = b.term(j)
            if tt["k"] == "call" and re.search(r"PartialEq(<.*>)?>?::(ne|eq)$", Body.callee(tt) or "") and \
                    any("id_arena::Id" in (ga.get("ty") or "") for ga in (tt["f"].get("args") or [])):
                # polarity: the add_parent block must lie on the "different ids" side of the test
                is_ne = (Body.callee(tt) or "").endswith("ne")
                sw = tt["t"]
                st = b.term(sw) if sw is not None else None
                if st and st["k"] == "switch":
                    zero = dict((a[0], a[1]) for a in st["arms"]).get(0)
                    nonzero = st["else"]
                    differ_edge = nonzero if is_ne else zero
                    same_edge = zero if is_ne else nonzero
                    if differ_edge is not None and i in b.reachable(differ_edge, avoid={sw}) and \
                            (same_edge is None or i not in b.reachable(same_edge, avoid={sw, j})):
                        guarded = True
        if not guarded:
            problems.append("%s adds a parent without excluding the record itself (`class A : A`)" % b.path)
    # (b) freshness of records in Class::index / Def::index
    for fn in ("<syntax::ast::Class as ide::index::Indexable>::index", "<syntax::ast::Def as ide::index::Indexable>::index"):
        b = prog.body(fn)
        if b is None:
            problems.append(fn + " not found")
            continue
        for i, t in b.calls():
            if Body.callee(t) == PUSH:
                l = op_local(t["args"][1])
                d = b.single_def(l) if l is not None else None
                if d and d[0] == "stmt" and "agg" in d[3] and d[3]["ops"]:
                    o = prov.origins(b, d[3]["ops"][0])
                    if not all(x[0] == "call" and (x[1].endswith("SymbolMap::add_record") or x[1].endswith("SymbolMap::add_anonymous_def")) for x in o):
                        problems.append("%s indexes a body under a record that is not freshly allocated (%s)" % (fn, sorted(o)))
    if not n:
        problems.append("no add_parent site found")
    return (not problems), ("; ".join(problems) if problems else "self-parent excluded at all %d add_parent sites, records are fresh" % n)


# -------------------------------------------------------------------------------------------- R03.3
def rule_loops(ck, prog, reach):
    n = 0
    for p in sorted(reach):
        b = prog.bodies[p]
        if b.crate != "ide.rlib":
            continue
        all_loops = cfg.loops(b)
        for h, blocks in all_loops:
            # iterator-driven loop: the loop's own body (nested loops excluded) calls Iterator::next
            inner = set()
            for h2, bl2 in all_loops:
                if h2 != h and bl2 < blocks:
                    inner |= bl2
            nexts = [i for i in blocks - inner if b.term(i)["k"] == "call" and
                     re.search(r"Iterator>::next$|^std::iter::Iterator::next$", Body.callee(b.term(i)) or "")]
            if nexts:
                continue
            n += 1
            # manual loop: every cycle must pass a call that moves strictly backwards/forwards in a finite structure
            movers = {i for i in blocks if b.term(i)["k"] == "call" and re.search(
                r"SyntaxToken::<L>::(prev_token|next_token)$|SyntaxNode::<L>::(parent|prev_sibling|next_sibling)$|"
                r"VecDeque::<T, A>::pop_front$|Vec::<T, A>::pop$", Body.callee(b.term(i)) or "")}
            cyc = cfg.path_exists(b, h, lambda x: x == h, avoid=movers | (set(range(len(b.blocks))) - set(blocks)))
            ok = bool(movers) and cyc is None
            why = "every iteration calls %s" % sorted({(Body.callee(b.term(i)) or "").rsplit("::", 1)[-1] for i in movers})
            if ok and any("pop_front" in (Body.callee(b.term(i)) or "") for i in movers):
                # a work-list loop also needs a bound on what is pushed (visited set): decided under C16
                pushes = [i for i in blocks if b.term(i)["k"] == "call" and "push_back" in (Body.callee(b.term(i)) or "")]
                if pushes:
                    guard = worklist_guarded(prog, b, blocks, pushes)
                    ok = guard
                    why = "work-list loop: every push_back is guarded by a visited-set test" if guard else \
                        "work-list loop pushes without a visited-set test"
            ck.ob("R03.3", "loop:%s" % p, ok, why,
                  msg="%s: manual loop at %s may not terminate: %s" % (p, b.where(h), why))
    ck.floor("R03.3", "manual loops in ide", n, 3)


def worklist_guarded(prog, b, blocks, pushes):
    """every push_back is dominated (within the iteration) by a successful insert into / membership test of a set"""
    dom = cfg.dominators(b)
    tests = {i for i in blocks if b.term(i)["k"] == "call" and re.search(
        r"HashSet::<[^>]*>::(insert|contains)$|BTreeSet::<T>::(insert|contains)$|HashMap::<[^>]*>::contains_key$|"
        r"FileSet::contains$", Body.callee(b.term(i)) or "")}
    if not tests:
        return False
    return all(any(t in dom[p] for t in tests) for p in pushes) or \
        all(cfg.path_exists(b, max(blocks), lambda x: x == p, avoid=tests) is None for p in pushes)
