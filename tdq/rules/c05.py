"""C05 Name resolution follows TableGen scoping — the scope discipline of the indexer.

Decided: scope brackets (push/pop) and file-stack brackets balanced on every feasible path, where a
`?`/None edge is pruned only when the grammar analysis proves the child node always exists; optional
syntax does not skip indexing of the rest of the construct; dispatch over statement/body-item kinds
reaches every kind's indexer; every variable created is bound; lookup order inside one scope.
Not decided: which declaration a name denotes in general (inheritance, shadowing across kinds)."""
import re

from .. import brackets, cfg, grammar_facts as gf, ast_facts, paths, prov
from ..facts import Body, op_local
from ..callgraph import callgraph

PUSH = "ide::index::scope::Scopes::push"
POP = "ide::index::scope::Scopes::pop"
PUSH_FILE = "ide::index::context::IndexCtx::<'a>::push_file"
POP_FILE = "ide::index::context::IndexCtx::<'a>::pop_file"
INDEXABLE = "ide::index::Indexable::index"


def is_index_call(c):
    return c.endswith(" as ide::index::Indexable>::index") or c == INDEXABLE


def run(ck, prog):
    ck.explanation = (
        "Scope discipline of the symbol indexer, decided on the MIR CFG of every function of crate ide: "
        "(R05.1) each Scopes::push is matched by exactly one Scopes::pop on every feasible non-unwind path "
        "to return; early-exit edges (`?`, let-else, match None) are kept unless their source is a typed-AST "
        "accessor of a child node that the parser abstract interpretation (tdq/parser_ai.py, over the "
        "parser's own MIR) proves present in every tree, malformed input included; (R05.2) a `?` on an "
        "accessor of syntax that is optional in error-free programs must not bypass further indexing; "
        "(R05.3) push_file/pop_file likewise; (R05.4) the dispatching matches over Statement and BodyItem "
        "reach the indexer of every variant; (R05.5) every Variable::new flows into an add_variable; "
        "(R05.6) lookup inside one scope tests variables before fields before template arguments in the "
        "same scope iteration; the push/pop primitives themselves are a stack (push = one Vec::push of the "
        "argument, pop = one Vec::pop, the current file = last()); (R05.9) the indexer descends into an "
        "included file only behind a visited-set test, so every file is indexed once. What a name *should* "
        "resolve to (inheritance, cross-kind shadowing) is not decided.")
    ck.trusted = ["rowan: typed accessors select children by kind", "parser abstract interpretation (must-child facts)"]
    ck.rule("R05.1", "Scopes::push/pop balanced on every feasible path of every function")
    ck.rule("R05.2", "an accessor of optional syntax followed by `?` does not bypass later indexing or scope operations")
    ck.rule("R05.3", "IndexCtx::push_file/pop_file balanced on every feasible path")
    ck.rule("R05.4", "Statement / BodyItem dispatch reaches the Indexable impl of every variant")
    ck.rule("R05.5", "every Variable::new is bound by add_variable / scope push before the function returns")
    ck.rule("R05.6", "find_local: per scope, variables are looked up before fields before template arguments")

    g = gf.get(prog)
    types = ast_facts.ast_types(prog)
    acc = ast_facts.accessors(prog)
    oracle = brackets.ChildOracle(prog, g, types, acc)
    ck.extra["grammar_ai"] = {"contexts": g.contexts, "states": g.states, "wall_s": g.wall}

    ide = [b for b in prog.bodies.values() if b.crate == "ide.rlib"]
    n_push = n_pushfile = 0
    n_tests = 0
    pruned = 0
    for b in ide:
        callees = {Body.callee(t) for _, t in b.calls()}
        for (op, cl, rule, what) in ((PUSH, POP, "R05.1", "scope"), (PUSH_FILE, POP_FILE, "R05.3", "file stack")):
            if op not in callees and cl not in callees:
                continue
            if b.path in (op, cl):
                continue
            dead, tests = brackets.infeasible_edges(b, prog, oracle)
            n_tests += len(tests)
            pruned += len(dead)
            r = brackets.check(b, lambda c: c == op, lambda c: c == cl, dead)
            if rule == "R05.1":
                n_push += len(r["opens"])
            else:
                n_pushfile += len(r["opens"])
            interesting = lambda c: c in (op, cl) or c.startswith("syntax::ast::") or "Try>::branch" in c
            for path, d in r["leaks"]:
                ck.ob(rule, "leak:%s" % b.path, False,
                      msg="%s: a path returns with %d unclosed %s bracket(s): %s  [%s]" % (
                          b.path, d, what, brackets.describe_path(b, path, interesting), b.loc),
                      extra={"path": [x[0] for x in path]})
            for path in r["underflows"]:
                ck.ob(rule, "underflow:%s" % b.path, False,
                      msg="%s: a path closes a %s bracket it did not open: %s" % (
                          b.path, what, brackets.describe_path(b, path, interesting)))
            for path in r["unbounded"]:
                ck.ob(rule, "unbounded:%s" % b.path, False,
                      msg="%s: %s bracket depth grows in a loop" % (b.path, what))
            if not (r["leaks"] or r["underflows"] or r["unbounded"]):
                ck.ob(rule, "balanced:%s" % b.path, True,
                      "%d open / %d close sites balanced on all feasible paths (%d None-edges pruned by must-child facts)" % (
                          len(r["opens"]), len(r["closes"]), len(dead)))
    ck.floor("R05.1", "Scopes::push sites", n_push, 9)
    ck.floor("R05.3", "push_file sites", n_pushfile, 1)
    stack_primitives(ck, prog, "R05.3", PUSH_FILE, POP_FILE, "ide::index::context::IndexCtx::<'a>::current_file_id")
    stack_primitives(ck, prog, "R05.1", PUSH, POP, None)
    # a file reached along two include paths is indexed once: otherwise each of its declarations becomes two symbols and
    # find-references returns only the uses bound to one of them
    from .c16 import descent_guard
    ck.rule("R05.9", "every file is indexed once (include descent guarded by a visited set)")
    descent_guard(ck, prog, callgraph(prog), "R05.9")
    ck.extra["option_tests_seen"] = n_tests
    ck.extra["none_edges_pruned"] = pruned

    # ---- R05.2 --------------------------------------------------------------------
    impls = [b for b in ide if b.impl_trait == "ide::index::Indexable" and b.parent is None]
    ck.floor("R05.2", "Indexable impls", len(impls), 35)
    effect = lambda c: is_index_call(c) or c in (PUSH, POP, PUSH_FILE, POP_FILE) or \
        c.startswith("ide::symbol_map::SymbolMap::add_") or c.startswith("ide::index::scope::Scopes::add_")
    n_opt = 0
    for b in impls:
        dead, tests = brackets.infeasible_edges(b, prog, oracle)
        for t in tests:
            fn = t["src_callee"]
            if not fn or fn not in acc:
                continue
            opt = oracle.optional_in_valid_input(fn)
            if not opt:
                continue
            n_opt += 1
            eff_blocks = cfg.blocks_calling(b, effect)
            after_some = {x for x in b.reachable(t["some_target"]) if x in eff_blocks}
            after_none = {x for x in b.reachable(t["none_target"]) if x in eff_blocks}
            # effects performed with the child itself (e.g. child.index()) are not "bypassed work":
            # only effects that do not depend on the child count; approximate by: effects reachable from
            # the Some edge beyond the first Indexable::index call on the child
            child_calls = set()
            for x in sorted(after_some):
                tt = b.term(x)
                if is_index_call(Body.callee(tt) or ""):
                    child_calls.add(x)
                    break
            bypassed = after_some - after_none - child_calls
            if t["via"] == "match":
                continue   # `if let Some(x) = ...` / match handles absence explicitly
            names = sorted({(Body.callee(b.term(x)) or "?") for x in bypassed})
            ck.ob("R05.2", "optional:%s:%s" % (b.path, fn.rsplit("::", 1)[-1]), not bypassed,
                  "%s is optional in valid programs; its absence skips nothing else" % fn,
                  msg="%s: `%s()?` — the child is optional in valid programs, and when it is absent the function "
                      "returns early, skipping %s" % (b.path, fn.rsplit("::", 1)[-1], ", ".join(n.rsplit("::", 2)[-2] + "::" + n.rsplit("::", 1)[-1] if "::" in n else n for n in names)))
    ck.extra["optional_accessor_tests"] = n_opt

    # ---- R05.4 --------------------------------------------------------------------
    for enum_ty in ("syntax::ast::Statement", "syntax::ast::BodyItem"):
        fnp = "<%s as ide::index::Indexable>::index" % enum_ty
        b = prog.body(fnp)
        ck.anchor(b is not None, "%s not found" % fnp)
        adt = prog.adts[enum_ty]
        by_discr = {v["discr"]: v for v in adt["variants"]}
        reached = {}
        for p in paths.enum_paths(b, prog):
            if p.end != "return":
                continue
            chosen = None
            for e in p.events:
                if e[0] == "branch" and e[2].kind == "discr" and e[2].data[1] == enum_ty and not isinstance(e[3], tuple):
                    chosen = e[3]
            if chosen is None:
                continue
            calls = [Body.callee(e[2]) for e in p.events if e[0] == "call"]
            reached.setdefault(chosen, set()).update(c for c in calls if c and is_index_call(c))
        for d, v in by_discr.items():
            vt = v["fields"][0]["t"] if v["fields"] else None
            want = "<%s as ide::index::Indexable>::index" % vt
            ck.ob("R05.4", "dispatch:%s:%s" % (enum_ty.rsplit("::", 1)[-1], v["name"]), want in reached.get(d, ()),
                  "%s::%s -> %s" % (enum_ty, v["name"], want),
                  msg="%s: variant %s is not dispatched to %s (its declarations/uses would never be indexed)" % (fnp, v["name"], want))

    # ---- R05.5 --------------------------------------------------------------------
    VNEW = "ide::symbol_map::variable::Variable::new"
    binders = lambda c: c in ("ide::index::scope::Scopes::add_variable", "ide::symbol_map::SymbolMap::add_variable")
    nv = 0
    for b in ide:
        for i, t in b.calls():
            if Body.callee(t) != VNEW:
                continue
            nv += 1
            # a path that leaves through a failing `?` abandons the whole construct (nothing is indexed under the variable):
            # only completed paths count
            bind = cfg.blocks_calling(b, binders) | cfg.blocks_calling(b, lambda c: c.endswith("::from_residual"))
            p = cfg.path_exists(b, i, lambda x: b.term(x)["k"] == "return", avoid=bind)
            if p is not None:
                # `Some(Variable::new(..))?` (a helper returning Option<Variable>, inlined): the early-exit arm is infeasible
                p = cfg.feasible_path_exists(b, i, lambda x: b.term(x)["k"] == "return", avoid=bind)
            ck.ob("R05.5", "bound:%s:%d" % (b.path, nv), p is None,
                  "Variable::new in %s always reaches add_variable" % b.path,
                  msg="%s: a Variable is created but a path returns without binding it [%s]" % (b.path, b.where(i)))
    ck.floor("R05.5", "Variable::new sites", nv, 5)

    # ---- R05.10 -------------------------------------------------------------------
    # a declaration statement registers its symbol on every completed path (only a failing `?` on missing syntax leaves
    # early): a "this name already exists" shortcut would leave later uses bound to an earlier declaration
    ck.rule("R05.10", "every declaring construct registers its symbol on every completed path")
    REG = re.compile(r"SymbolMap::add_(record|variable|defset|multiclass|defm|template_argument|record_field|anonymous_def|anonymous_defm)$|"
                     r"Scopes::add_variable$")
    nd = 0
    for b in ide:
        if b.parent or " as ide::index::Indexable>::index" not in b.path or "BangOperator" in b.path:
            continue
        regs = cfg.blocks_calling(b, lambda c: bool(REG.search(c)))
        if not regs:
            continue
        nd += 1
        leave = regs | cfg.blocks_calling(b, lambda c: c.endswith("::from_residual"))
        # `let Some(x) = self.name() else { return None }` is the same early exit on missing syntax as `self.name()?`
        for ot in brackets.option_tests(b, prog):
            src = ot.get("src_callee") or ""
            if src.startswith("syntax::ast::") or src in ("ide::index::utils::identifier", "ide::index::index_name_value") or is_index_call(src):
                if ot.get("none_target") is not None:
                    leave = leave | {ot["none_target"]}
        pth = cfg.path_exists(b, 0, lambda x: b.term(x)["k"] == "return", avoid=leave, include_src=True)
        if pth is not None:
            pth = cfg.feasible_path_exists(b, 0, lambda x: b.term(x)["k"] == "return", avoid=leave, include_src=True)
        ck.ob("R05.10", "registers:%s" % b.path, pth is None, "%s registers its symbol on every completed path" % b.path,
              msg="%s can complete without registering the symbol it declares [%s]: uses after it resolve to an earlier "
                  "declaration of the name (or to nothing)" % (b.path, b.where(pth[-2]) if pth and len(pth) > 1 else b.loc))
    ck.floor("R05.10", "declaring constructs", nd, 10)

    # ---- R05.6 --------------------------------------------------------------------
    fl = prog.body("ide::index::scope::Scopes::find_local")
    ck.anchor(fl is not None, "Scopes::find_local not found")
    order = ["ide::index::scope::Scope::find_variable", "ide::symbol_map::record::Record::find_field",
             "ide::symbol_map::record::Record::find_template_arg"]
    # the per-scope lookup lives either in a loop of find_local or in a closure it hands to an iterator adaptor
    # (find_map / filter_map / map over the reversed scope stack)
    ok = False
    detail = "find_variable, find_field, find_template_arg not found together in find_local or one of its closures"
    for cand in [fl] + prog.closures_of(fl.path):
        blocks = {}
        for i, t in cand.calls():
            c = Body.callee(t)
            if c in order:
                blocks.setdefault(c, []).append(i)
        if not all(len(blocks.get(c, [])) == 1 for c in order):
            continue
        dom = cfg.dominators(cand)
        seq = blocks[order[0]][0] in dom[blocks[order[1]][0]] and blocks[order[1]][0] in dom[blocks[order[2]][0]]
        if cand is fl:
            lp = cfg.loops(fl)
            per_scope = bool(lp) and all(any(blocks[c][0] in body for _, body in lp) for c in order)
        else:
            per_scope = any(re.search(r"Iterator::(find_map|filter_map|map|find|any)$", Body.callee(t) or "") and
                            any(ga.get("closure") == cand.path for ga in (t["f"].get("args") or []))
                            for _, t in fl.calls())
        ok = seq and per_scope
        detail = "once per scope, in the order variables -> fields -> template arguments (by dominance)"
        break
    ck.ob("R05.6", "find_local-order", ok, detail,
          msg="Scopes::find_local no longer looks up variables, then fields, then template arguments within one "
              "iteration over the scopes (innermost declaration would not win)")
    # iteration must be innermost-first: the scope vector is iterated through Rev
    rev = any((Body.callee(t) or "").endswith("std::iter::Iterator::rev") for _, t in fl.calls())
    ck.ob("R05.6", "find_local-innermost-first", rev, "scopes are iterated in reverse (innermost first)",
          msg="Scopes::find_local does not iterate the scope stack innermost-first")
    ck.count(len(ide))
    # ---- R05.8 --------------------------------------------------------------------
    # A construct that opens its own scope binds its variables inside it: in a function that both opens a scope and
    # binds a variable, no variable is bound at depth 0 (outside every scope this function opened) on a path that
    # goes on to open one. Bound outside, the variable would live on in the enclosing scope after the construct
    # ended (and shadow fields / template arguments there).
    ck.rule("R05.8", "a construct that opens a scope binds its variables after opening it, not into the enclosing scope")
    ADD_VAR = "ide::index::scope::Scopes::add_variable"

    def depth_states(b, pushes, pops):
        seen = {(0, 0)}
        st = [(0, 0)]
        while st:
            blk, d = st.pop()
            nd = d + (1 if blk in pushes else 0) - (1 if blk in pops else 0)
            if nd < 0 or nd > 6:
                continue
            for nx in b.succ(blk):
                if (nx, nd) not in seen:
                    seen.add((nx, nd))
                    st.append((nx, nd))
        return seen
    info = {}
    for b in ide:
        if b.path in (PUSH, POP, ADD_VAR):
            continue
        calls = list(b.calls())
        pushes = {i for i, t in calls if Body.callee(t) == PUSH}
        pops = {i for i, t in calls if Body.callee(t) == POP}
        info[b.path] = (b, calls, pushes, pops, depth_states(b, pushes, pops))
    # functions that bind a variable into the scope that was current when they were called ("outward binders"):
    # Defvar::index does by design; a construct with its own scope must not
    outward = set()
    changed = True
    while changed:
        changed = False
        for pth, (b, calls, pushes, pops, seen) in info.items():
            if pth in outward:
                continue
            for i, t in calls:
                c = Body.callee(t)
                if (c == ADD_VAR or c in outward) and (i, 0) in seen:
                    outward.add(pth)
                    changed = True
                    break
    n_bind = 0
    for pth, (b, calls, pushes, pops, seen) in sorted(info.items()):
        if not pushes:
            continue
        binds = [(i, Body.callee(t)) for i, t in calls if Body.callee(t) == ADD_VAR or Body.callee(t) in outward]
        for k, (a, callee) in enumerate(binds):
            n_bind += 1
            outside = (a, 0) in seen
            later_push = outside and cfg.path_exists(b, a, lambda x: x in pushes) is not None
            what = "add_variable" if callee == ADD_VAR else callee.rsplit("::", 2)[-2] + "::" + callee.rsplit("::", 1)[-1]
            ck.ob("R05.8", "bind-inside:%s:%d" % (pth, k), not later_push,
                  "%s happens at scope depth >= 1 of this function, or no scope is opened after it" % what,
                  msg="%s binds a variable (%s at %s) before opening the scope of the construct (Scopes::push later on the same "
                      "path): the variable lands in the enclosing scope and stays visible after the construct ended"
                      % (pth, what, b.where(a)))
    ck.floor("R05.8", "variable bindings in scope-opening functions", n_bind, 4)

    ck.rule("R05.7", "a declaration is registered whether or not the type of its value is known")
    from .c18 import rule_registration_before_value
    rule_registration_before_value(ck, prog, "R05.7")


def scope_stack_rule(ck, prog, rule):
    """shared with C18: Scopes::push/pop balanced on every feasible path (current_defset_id(), and with it whether a def
    is a top-level symbol or a member of a defset, is read off this stack: a scope left behind makes a later
    `ctx.scopes.pop()` remove the wrong scope, and every def after it lands in a defset that is already closed)"""
    g = gf.get(prog)
    types = ast_facts.ast_types(prog)
    acc = ast_facts.accessors(prog)
    oracle = brackets.ChildOracle(prog, g, types, acc)
    n = 0
    for b in prog.bodies.values():
        if b.crate != "ide.rlib":
            continue
        callees = {Body.callee(t) for _, t in b.calls()}
        if (PUSH not in callees and POP not in callees) or b.path in (PUSH, POP):
            continue
        dead, _ = brackets.infeasible_edges(b, prog, oracle)
        r = brackets.check(b, lambda c: c == PUSH, lambda c: c == POP, dead)
        n += len(r["opens"])
        bad = r["leaks"] or r["underflows"] or r["unbounded"]
        ck.ob(rule, "scope-stack:%s" % b.path, not bad, "Scopes::push/pop balanced on all feasible paths",
              msg="%s: the scope stack is left unbalanced on some path: the enclosing construct's pop then removes the wrong "
                  "scope, and current_defset_id() keeps answering with a defset that is already closed (or none): later defs "
                  "are listed under the wrong parent" % b.path)
    ck.floor(rule, "Scopes::push sites", n, 9)
    stack_primitives(ck, prog, rule, PUSH, POP, None)


def file_stack_rule(ck, prog, rule):
    """shared with C06/C17: IndexCtx::push_file/pop_file balanced on every feasible path (ranges are paired
    with the file on top of this stack)"""
    g = gf.get(prog)
    types = ast_facts.ast_types(prog)
    acc = ast_facts.accessors(prog)
    oracle = brackets.ChildOracle(prog, g, types, acc)
    n = 0
    for b in prog.bodies.values():
        if b.crate != "ide.rlib":
            continue
        callees = {Body.callee(t) for _, t in b.calls()}
        if (PUSH_FILE not in callees and POP_FILE not in callees) or b.path in (PUSH_FILE, POP_FILE):
            continue
        dead, _ = brackets.infeasible_edges(b, prog, oracle)
        r = brackets.check(b, lambda c: c == PUSH_FILE, lambda c: c == POP_FILE, dead)
        n += len(r["opens"])
        bad = r["leaks"] or r["underflows"] or r["unbounded"]
        ck.ob(rule, "file-stack:%s" % b.path, not bad, "push_file/pop_file balanced on all feasible paths",
              msg="%s: the include file stack is left unbalanced on some path: every range recorded afterwards is paired "
                  "with the wrong file" % b.path)
    ck.floor(rule, "push_file sites", n, 1)
    stack_primitives(ck, prog, rule, PUSH_FILE, POP_FILE, "ide::index::context::IndexCtx::<'a>::current_file_id")


VEC_MUT = re.compile(r"Vec::<T(, A)?>::(push|pop|truncate|clear|remove|insert|drain|retain|retain_mut|swap_remove|extend|append|"
                     r"split_off|resize|dedup|extend_from_slice)$|VecDeque::<T(, A)?>::\w+$")


def stack_primitives(ck, prog, rule, push_fn, pop_fn, top_fn):
    """the balanced-bracket argument needs the primitives to be a stack: push adds exactly one element (its argument), pop
    removes exactly one (the last), the current element is `last()` of the same vector"""
    def mutations(b):
        out = []
        for i, t in b.calls():
            c = Body.callee(t) or ""
            m = VEC_MUT.search(c)
            if not m or not t["args"]:
                continue
            recv = prov.origins(b, t["args"][0])
            flds = {x[2][0] for x in recv if x[0] == "arg" and x[1] == 1 and x[2]}
            if flds:
                out.append((i, c.rsplit("::", 1)[-1], next(iter(flds))))
        return out
    pb, qb, tb = prog.body(push_fn), prog.body(pop_fn), (prog.body(top_fn) if top_fn else None)
    ck.anchor(pb is not None and qb is not None and (tb is not None or not top_fn), "stack primitives %s / %s not found" % (push_fn, pop_fn))
    pm, qm = mutations(pb), mutations(qb)
    field = pm[0][2] if pm else None
    ok_push = len(pm) == 1 and pm[0][1] == "push" and \
        all((x[0] == "arg" and x[1] == 2) or (x[0] == "call" and all(y[0] == "arg" and y[1] == 2 for a_ in pb.term(x[2])["args"]
                                                                     for y in prov.origins(pb, a_)))
            for x in prov.origins(pb, pb.term(pm[0][0])["args"][1])) and \
        cfg.path_exists(pb, 0, lambda x: pb.term(x)["k"] == "return", avoid={pm[0][0]}, include_src=True) is None and \
        not any(pm[0][0] in bl for _, bl in cfg.loops(pb))
    ck.ob(rule, "stack-push:%s" % push_fn.rsplit("::", 1)[-1], ok_push, "pushes its argument exactly once onto `%s`" % field,
          msg="%s is not a plain push of its argument onto the stack (%s): the balanced push/pop argument no longer says which "
              "file is current" % (push_fn, [(k, f) for _, k, f in pm]))
    ok_pop = len(qm) == 1 and qm[0][1] == "pop" and qm[0][2] == field and \
        cfg.path_exists(qb, 0, lambda x: qb.term(x)["k"] == "return", avoid={qm[0][0]}, include_src=True) is None and \
        not any(qm[0][0] in bl for _, bl in cfg.loops(qb))
    ck.ob(rule, "stack-pop:%s" % pop_fn.rsplit("::", 1)[-1], ok_pop, "pops exactly one element of `%s`" % field,
          msg="%s does not remove exactly the last element of the stack (%s): after an included file has been left, the "
              "rest of the including file is attributed to another file" % (pop_fn, [(k, f) for _, k, f in qm]))
    if tb is None:
        return
    tops = [(i, Body.callee(t)) for i, t in tb.calls() if re.search(r"<impl \[T\]>::(last|first|get)$|Vec::<T(, A)?>::\w+$", Body.callee(t) or "")]
    ok_top = any(c.endswith("::last") and any(x[0] == "arg" and x[2][:1] == (field,) for x in prov.origins(tb, tb.term(i)["args"][0]))
                 for i, c in tops)
    ck.ob(rule, "stack-top:%s" % top_fn.rsplit("::", 1)[-1], ok_top, "the current file is the last element of `%s`" % field,
          msg="%s does not read the top of the stack `%s`" % (top_fn, field))
