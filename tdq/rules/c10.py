"""C10 Position mapping — unit consistency, line-terminator set, clamping and index preconditions.
The numeric round-trip law itself is not decided (it needs executions or a solver)."""
import json
import re
import subprocess

from .. import cfg, prov
from ..facts import Body, op_local, op_const, REPO

LI = "ide::line_index::LineIndex::"

# unit of the *result* of an API call, and units its index argument must have
ROPE_API = {
    "ropey::Rope::byte_to_line": ("lines", ["bytes"]),
    "ropey::Rope::byte_to_char": ("chars", ["bytes"]),
    "ropey::Rope::char_to_byte": ("bytes", ["chars"]),
    "ropey::Rope::char_to_line": ("lines", ["chars"]),
    "ropey::Rope::line_to_char": ("chars", ["lines"]),
    "ropey::Rope::line_to_byte": ("bytes", ["lines"]),
    "ropey::Rope::char_to_utf16_cu": ("utf16", ["chars"]),
    "ropey::Rope::utf16_cu_to_char": ("chars", ["utf16"]),
    "ropey::Rope::len_bytes": ("bytes", []),
    "ropey::Rope::len_chars": ("chars", []),
    "ropey::Rope::len_lines": ("lines", []),
    "ropey::Rope::len_utf16_cu": ("utf16", []),
    "ropey::RopeSlice::<'a>::len_chars": ("chars", []),
    "ropey::RopeSlice::<'a>::len_bytes": ("bytes", []),
    "ropey::RopeSlice::<'a>::len_utf16_cu": ("utf16", []),
    "ropey::RopeSlice::<'a>::len_lines": ("lines", []),
    "ropey::RopeSlice::<'a>::byte_to_char": ("chars", ["bytes"]),
    "ropey::RopeSlice::<'a>::char_to_byte": ("bytes", ["chars"]),
    "ropey::RopeSlice::<'a>::char_to_utf16_cu": ("utf16", ["chars"]),
    "ropey::RopeSlice::<'a>::utf16_cu_to_char": ("chars", ["utf16"]),
    "ropey::Rope::byte_slice": ("slice", []),
    "ropey::Rope::slice": ("slice", []),
    "ropey::Rope::line": ("slice", ["lines"]),
    "ropey::Rope::char": ("char", ["chars"]),
    "ropey::Rope::byte": ("byte", ["bytes"]),
}
SAME_UNIT = re.compile(r"^std::cmp::Ord::(min|max)$|^core::num::<impl usize>::(saturating_add|saturating_sub|min|max|wrapping_add|wrapping_sub)$|"
                       r"^core::num::<impl u32>::(saturating_add|saturating_sub)$|^std::cmp::(min|max)$")
CONV = re.compile(r"Into<.*>>::into$|From<.*>>::from$|TryFrom<.*>>::try_from$|TryInto<.*>>::try_into$|"
                  r"TryFrom<[^<>]*> for [^<>]*>::try_from$|From<[^<>]*> for [^<>]*>::from$|"
                  r"Result::<T, E>::(expect|unwrap)$|^<T as std::convert::(Into|TryInto)<U>>::(try_)?into$")


class Units:
    def __init__(self, prog, body, params):
        self.prog, self.b, self.params = prog, body, params
        self.memo = {}
        self.problems = []

    def op(self, op):
        c = op_const(op)
        if c is not None:
            return "const"
        l = op_local(op)
        if l is None:
            pl = op.get("copy") or op.get("move")
            if pl and pl["p"]:
                return self.local(pl["l"])
            return "?"
        return self.local(l)

    def local(self, l):
        if l in self.memo:
            return self.memo[l]
        self.memo[l] = "?"      # cycle guard (loop-carried variables resolve through their other defs)
        if 1 <= l <= self.b.argc and l in self.params:
            units = {self.params[l]}
        else:
            units = set()
        for d in self.b.defs().get(l, []):
            if d[0] == "call":
                units.add(self.call(d[2]))
            else:
                units.add(self.rvalue(d[3]))
        unknown = "?" in units
        units.discard("?")
        units.discard("const")
        if len(units) > 1:
            self.problems.append("local _%d (%s) mixes units %s" % (l, self.b.local_name(l), sorted(units)))
        u = next(iter(units)) if len(units) == 1 else (("?" if unknown else "const") if not units else "mixed")
        self.memo[l] = u
        return u

    def rvalue(self, rv):
        if "use" in rv:
            return self.op(rv["use"])
        if "cast" in rv:
            return self.op(rv["cast"])
        if "binop" in rv:
            op = rv["binop"]
            a, b = self.op(rv["a"]), self.op(rv["b"])
            if op.startswith(("Add", "Sub")):
                us = {a, b} - {"const", "?"}
                if len(us) > 1:
                    self.problems.append("%s of %s and %s" % (op, a, b))
                    return "mixed"
                return next(iter(us)) if us else "const"
            return "?"
        if "ref" in rv:
            return self.local(rv["ref"]["l"]) if not rv["ref"]["p"] else "?"
        if "agg" in rv:
            # `Some(line)` / a one-unit tuple carries the unit of its payload (helpers returning Option<usize>)
            us = {self.op(o) for o in rv.get("ops", [])}
            known = us - {"const", "?"}
            if len(known) == 1:
                return next(iter(known))
            if not known:
                return "?" if "?" in us else "const"
            return "?"
        return "?"

    def call(self, t):
        c = Body.callee(t) or ""
        if c in ROPE_API:
            return ROPE_API[c][0]
        if SAME_UNIT.search(c):
            us = {self.op(a) for a in t["args"]} - {"const", "?"}
            if len(us) > 1:
                self.problems.append("%s combines %s" % (c.rsplit("::", 1)[-1], sorted(us)))
                return "mixed"
            return next(iter(us)) if us else "const"
        if CONV.search(c) and t["args"]:
            return self.op(t["args"][0])
        if c.startswith(LI):
            return LI_RESULT.get(c.rsplit("::", 1)[-1], "?")
        return "?"


LI_RESULT = {"pos_to_line": "lines", "line_to_pos": "bytes", "pos_to_utf16_col": "utf16", "utf16_pos_to_pos": "bytes",
             "clamp_to_char_boundary": "bytes"}


def param_units(body):
    """units of parameters from their types/names: TextSize = bytes; `line` = lines; `col`/`character` = utf16"""
    out = {}
    for k in range(1, body.argc + 1):
        ty = body.local_ty(k)
        n = body.local_name(k) or ""
        if "TextSize" in ty:
            out[k] = "bytes"
        elif n in ("line", "line_idx"):
            out[k] = "lines"
        elif n in ("col", "character", "column"):
            out[k] = "utf16"
        elif n in ("pos", "offset", "byte"):
            out[k] = "bytes"
    return out


def run(ck, prog):
    ck.explanation = (
        "The arithmetic exactness and the round-trip law of position mapping are numerical statements that need "
        "executions or a solver; they are NOT decided here. Decided statically: (R10.1) unit consistency by "
        "dataflow over the MIR of line_index.rs / to_proto.rs / from_proto.rs: every ropey index argument has "
        "the unit its API expects (bytes / chars / UTF-16 code units / lines), additions, subtractions and min/max "
        "only combine equal units, a TextSize is only built from bytes, an LSP Position from (lines, UTF-16); "
        "(R10.2) the resolved feature set of ropey (cargo metadata) contains cr_lines and not unicode_lines, so "
        "exactly LF, CR and CRLF end a line; (R10.3) from_proto clamps: the column is bounded by a min() with "
        "the line's end (terminator excluded) and a line past the end is tested against len_lines before it is "
        "used as an index; (R10.4) every ropey index is within bounds: byte offsets are min()-clamped to "
        "len_bytes and snapped to a char boundary, line indices are guarded by a comparison with len_lines, char "
        "indices are results of ropey conversions of valid indices.")
    ck.trusted = ["ropey's documented semantics of its index-conversion functions", "cargo metadata feature resolution"]
    for r, t in (("R10.1", "unit consistency (bytes / chars / UTF-16 / lines)"),
                 ("R10.2", "line terminators are exactly LF, CR, CRLF"),
                 ("R10.3", "column and line are clamped"),
                 ("R10.4", "ropey index preconditions hold")):
        ck.rule(r, t)

    bodies = [b for p, b in prog.bodies.items() if p.startswith(LI) and not b.parent]
    ck.anchor(len(bodies) >= 3, "LineIndex methods not found")
    n_calls = 0
    for b in bodies:
        u = Units(prog, b, param_units(b))
        for i, t in b.calls():
            c = Body.callee(t) or ""
            if c in ROPE_API:
                want = ROPE_API[c][1]
                for k, w in enumerate(want):
                    n_calls += 1
                    got = u.op(t["args"][k + 1])
                    ok = got == w or (got == "const")
                    ck.ob("R10.1", "unit:%s:%s#%d" % (b.path.rsplit("::", 1)[-1], c.rsplit("::", 1)[-1], i), ok,
                          "%s receives %s" % (c.rsplit("::", 1)[-1], got),
                          msg="%s: %s expects an index in %s but receives a value in %s [%s] (exact only for ASCII text; can "
                              "panic or mis-map for multi-byte characters)" % (b.path, c, w, got, b.where(i)))
            elif c.endswith("TryFrom<usize>>::try_from") or (CONV.search(c) and "TextSize" in b.local_ty(t["dest"]["l"]) if not t["dest"]["p"] else False):
                if "TextSize" in (b.local_ty(t["dest"]["l"]) if not t["dest"]["p"] else "") or "TextSize" in json.dumps(t["f"].get("args") or []):
                    got = u.op(t["args"][0])
                    if got not in ("?",):
                        n_calls += 1
                        ck.ob("R10.1", "textsize:%s#%d" % (b.path.rsplit("::", 1)[-1], i), got in ("bytes", "const"),
                              "TextSize built from %s" % got,
                              msg="%s builds a TextSize (byte offset) from a value in %s [%s]" % (b.path, got, b.where(i)))
        # the function's result unit
        name = b.path.rsplit("::", 1)[-1]
        if name in LI_RESULT:
            got = u.local(0)
            ck.ob("R10.1", "result:%s" % name, got in (LI_RESULT[name], "const"),
                  "%s returns %s" % (name, got),
                  msg="LineIndex::%s returns a value in %s, expected %s" % (name, got, LI_RESULT[name]))
        # every integer local is evaluated, so that arithmetic whose result only flows on through conversions
        # (`u32::try_from(col).expect(..)`) is still seen
        for l, info in enumerate(b.raw.get("locals", [])):
            if re.match(r"^(u|i)(8|16|32|64|128|size)$|^\((u|i)(8|16|32|64|size), bool\)$", info.get("t", "")):
                u.local(l)
        for pr in sorted(set(u.problems)):
            ck.ob("R10.1", "mix:%s:%s" % (name, pr), False,
                  msg="LineIndex::%s: %s (values counted in different units are combined: wrong for text with multi-byte or "
                      "astral characters)" % (name, pr))
    ck.floor("R10.1", "unit-checked ropey index arguments", n_calls, 10)

    # to_proto::position / from_proto::position
    tp = prog.body("lsp::to_proto::position")
    fp = prog.body("lsp::from_proto::position")
    ck.anchor(tp is not None and fp is not None, "to_proto::position / from_proto::position not found")
    for i, t in tp.calls():
        if (Body.callee(t) or "").endswith("Position::new"):
            lo = prov.origins(tp, t["args"][0])
            co = prov.origins(tp, t["args"][1])
            okl = all(x[0] == "call" and x[1] == LI + "pos_to_line" for x in lo)
            okc = all(x[0] == "call" and x[1] == LI + "pos_to_utf16_col" for x in co)
            ck.ob("R10.1", "position:to_proto", okl and okc, "Position::new(pos_to_line(p), pos_to_utf16_col(p))",
                  msg="to_proto::position builds the LSP position from %s / %s instead of (line, UTF-16 column)" % (sorted(lo), sorted(co)))
            # both computed for the same offset
            same = True
            args = []
            for x in list(lo) + list(co):
                if x[0] == "call":
                    args.append(frozenset(prov.origins(tp, tp.term(x[2])["args"][1])))
            ck.ob("R10.1", "position:same-offset", len(set(args)) == 1, "line and column are computed for the same offset",
                  msg="to_proto::position computes line and column from different offsets")
    ro = prov.origins(fp, 0)
    okf = all(x[0] == "call" and x[1] == LI + "utf16_pos_to_pos" for x in ro)
    ck.ob("R10.1", "position:from_proto", okf, "from_proto::position = LineIndex::utf16_pos_to_pos(line, character)",
          msg="from_proto::position adds a raw column to a line start (%s): a UTF-16 column is not a byte count" % sorted(ro))
    if okf:
        for x in ro:
            t = fp.term(x[2])
            lo = prov.origins(fp, t["args"][1])
            co = prov.origins(fp, t["args"][2])
            ck.ob("R10.1", "position:fields", all(y[0] == "arg" and y[2][-1:] == ("line",) for y in lo) and
                  all(y[0] == "arg" and y[2][-1:] == ("character",) for y in co),
                  "line <- position.line, column <- position.character",
                  msg="from_proto::position swaps or replaces the position's line/character")

    # ---- R10.5 / R10.6 -------------------------------------------------------------
    ck.rule("R10.5", "LineIndex is immutable: no interior-mutable (memo) state that can go stale between queries")
    ck.rule("R10.6", "a range is converted endpoint by endpoint")
    adt = prog.adts.get("ide::line_index::LineIndex")
    ck.anchor(adt is not None, "LineIndex ADT not found")
    bad = [f for v in adt["variants"] for f in v["fields"]
           if re.search(r"Cell<|RefCell<|Mutex<|RwLock<|Atomic|OnceCell<|OnceLock<|UnsafeCell<", f["t"])]
    ck.ob("R10.5", "no-memo-state", not bad, "LineIndex fields: %s" % [f["n"] + ": " + f["t"] for v in adt["variants"] for f in v["fields"]],
          msg="LineIndex holds interior-mutable state (%s): answers can depend on the order of earlier queries" % [f["n"] for f in bad])
    range_endpoints(ck, prog, "R10.6")

    # ---- R10.2 -------------------------------------------------------------------
    feats = ropey_features()
    ck.extra["ropey_features"] = feats
    uses_rope_lines = any(Body.callee(t) in ("ropey::Rope::byte_to_line", "ropey::Rope::line_to_byte", "ropey::Rope::char_to_line",
                                            "ropey::Rope::line_to_char", "ropey::Rope::len_lines", "ropey::Rope::line")
                          for b in bodies for _, t in b.calls())
    if uses_rope_lines:
        ck.ob("R10.2", "ropey-features", feats is not None and "cr_lines" in feats and "unicode_lines" not in feats,
              "ropey resolved features: %s" % feats,
              msg="line lookup is delegated to ropey built with features %s: with `unicode_lines` VT, FF, NEL, U+2028 and "
                  "U+2029 count as line breaks; without `cr_lines` a lone CR does not" % feats)
    else:
        ck.ob("R10.2", "own-line-table", False, msg="LineIndex no longer delegates line lookup to ropey: the terminator set must be re-reviewed (anchor lost)")

    # ---- R10.3 -------------------------------------------------------------------
    ub = prog.body(LI + "utf16_pos_to_pos")
    ck.anchor(ub is not None, "LineIndex::utf16_pos_to_pos not found")
    mins = [(i, t) for i, t in ub.calls() if re.search(r"Ord::min$|::min$", Body.callee(t) or "")]
    ok = False
    for i, t in mins:
        origins = set()
        for a in t["args"]:
            origins |= prov.origins(ub, a)
        # one operand is char_to_utf16_cu(line_first_char + trimmed length)
        ok = ok or any(x[0] == "call" and x[1] == "ropey::Rope::char_to_utf16_cu" for x in origins)
    trims = any(isinstance(op_const(s.get("rv", {}).get("b")) if isinstance(s.get("rv", {}).get("b"), dict) else None, dict)
                for bb in ub.blocks for s in bb["s"] if (s.get("rv") or {}).get("binop") == "SubWithOverflow")
    newline_test = any(t["k"] == "switch" and {a[0] for a in t["arms"]} >= {10, 13} for bb in ub.blocks for t in [bb["term"]])
    ck.ob("R10.3", "column-clamp", ok and trims and newline_test,
          "column = min(line start + col, end of line content) with LF/CR trimmed from the line end",
          msg="from_proto: a column past the end of a line is not clamped to the line end (terminator excluded)")
    guard = False
    for i, bb in enumerate(ub.blocks):
        for s in bb["s"]:
            rv = s.get("rv") or {}
            if rv.get("binop") in ("Ge", "Lt", "Gt", "Le"):
                oa = prov.origins(ub, rv["a"]) | prov.origins(ub, rv["b"])
                if any(x[0] == "call" and x[1] == "ropey::Rope::len_lines" for x in oa) and any(x[0] == "arg" and x[1] == 2 for x in oa):
                    guard = True
    ck.ob("R10.3", "line-clamp", guard, "a line past the end of the text is detected before it is used as an index",
          msg="from_proto: a line number past the end of the text is not tested against len_lines")

    # ---- R10.4 -------------------------------------------------------------------
    for b in bodies:
        dom = cfg.dominators(b)
        for i, t in b.calls():
            c = Body.callee(t) or ""
            if c not in ROPE_API or not ROPE_API[c][1]:
                continue
            unit = ROPE_API[c][1][0]
            o = prov.origins(b, t["args"][1])
            reason = None
            if unit == "bytes":
                if all(x[0] == "call" and (x[1].endswith("Ord::min") or x[1] == "ropey::Rope::char_to_byte" or
                                           x[1] == LI + "clamp_to_char_boundary" or x[1] == "ropey::Rope::line_to_byte") for x in o):
                    reason = "byte offset is min()-clamped to len_bytes / produced by a ropey conversion"
            elif unit == "lines":
                if all(x[0] == "call" and x[1] in ("ropey::Rope::byte_to_line", "ropey::Rope::char_to_line") for x in o):
                    reason = "line index produced by ropey for a valid offset"
                else:
                    # guarded by a comparison with len_lines in a dominating block
                    for j in dom.get(i, ()):
                        for s in b.blocks[j]["s"]:
                            rv = s.get("rv") or {}
                            if rv.get("binop") in ("Ge", "Lt", "Gt", "Le"):
                                oa = prov.origins(b, rv["a"]) | prov.origins(b, rv["b"])
                                if any(x[0] == "call" and x[1] == "ropey::Rope::len_lines" for x in oa):
                                    reason = "line index tested against len_lines in a dominating block"
            elif unit in ("chars", "utf16"):
                if all((x[0] == "call" and (x[1] in ROPE_API or x[1].endswith("Ord::min"))) or x[0] == "arith" for x in o):
                    reason = "index derived from ropey conversions of valid indices (sums stay within the line by the trimming loop / min)"
            ck.ob("R10.4", "index:%s:%s#%d" % (b.path.rsplit("::", 1)[-1], c.rsplit("::", 1)[-1], i), reason is not None, reason or "",
                  msg="%s: index passed to %s is not shown to be within bounds (origins %s) [%s]" % (b.path, c, sorted(o), b.where(i)))


def ropey_features():
    try:
        r = subprocess.run(["cargo", "metadata", "--offline", "--format-version", "1", "--manifest-path", REPO + "/Cargo.toml"],
                           stdout=subprocess.PIPE, stderr=subprocess.PIPE, text=True, timeout=120)
        m = json.loads(r.stdout)
        for n in m["resolve"]["nodes"]:
            if re.search(r"[#/]ropey@", n["id"]) or n["id"].startswith("ropey "):
                return sorted(n["features"])
    except Exception:
        return None
    return None


def conversion_basis(ck, prog, rule):
    """shared with C09 (every range the server sends goes through these conversions): the line-terminator set ropey is
    built with, and the unit each LineIndex method returns"""
    bodies = [b for p, b in prog.bodies.items() if p.startswith(LI) and not b.parent]
    ck.anchor(len(bodies) >= 3, "LineIndex methods not found")
    feats = ropey_features()
    ck.ob(rule, "ropey-features", feats is not None and "cr_lines" in feats and "unicode_lines" not in feats,
          "ropey resolved features: %s" % feats,
          msg="line lookup is delegated to ropey built with features %s: with `unicode_lines` VT, FF, NEL, U+2028 and U+2029 "
              "count as line breaks (every range after such a character is sent one line too far down); without `cr_lines` a "
              "lone CR does not" % feats)
    for b in bodies:
        name = b.path.rsplit("::", 1)[-1]
        if name in LI_RESULT:
            got = Units(prog, b, param_units(b)).local(0)
            ck.ob(rule, "result:%s" % name, got in (LI_RESULT[name], "const"), "%s returns %s" % (name, got),
                  msg="LineIndex::%s returns a value in %s, expected %s: positions sent to the client are off for text with "
                      "multi-byte or astral characters" % (name, got, LI_RESULT[name]))


def range_endpoints(ck, prog, rule):
    """shared with C09: to_proto::range converts each endpoint of the byte range through position() on its own"""
    rb = prog.body("lsp::to_proto::range")
    ck.anchor(rb is not None, "to_proto::range not found")
    okr = False
    for i, t in rb.calls():
        if (Body.callee(t) or "").endswith("Range::new"):
            so = prov.origins(rb, t["args"][0])
            eo = prov.origins(rb, t["args"][1])
            def via(o, which):
                good = bool(o)
                for x in o:
                    if not (x[0] == "call" and x[1] == "lsp::to_proto::position"):
                        return False
                    ao = prov.origins(rb, rb.term(x[2])["args"][1])
                    good = good and all(y[0] == "call" and y[1].endswith("TextRange::" + which) for y in ao)
                return good
            okr = via(so, "start") and via(eo, "end")
    ck.ob(rule, "range-endpoints", okr, "Range::new(position(range.start()), position(range.end()))",
          msg="to_proto::range no longer converts both endpoints through position(): an endpoint derived from the other one "
              "is wrong when the range crosses a line break or contains a character that is not exactly one column unit wide")
