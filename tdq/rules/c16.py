"""C16 Include graphs: termination, reachability, links, single indexing — structural clauses."""
import json
import re

from .. import cfg, prov, paths, brackets
from ..facts import Body, op_local
from ..callgraph import callgraph

COLLECT = "ide::file_system::collect_sources"
INCLUDE_INDEX = "<syntax::ast::Include as ide::index::Indexable>::index"
SET_TEST = re.compile(r"HashSet::<[^>]*>::(insert|contains)$|BTreeSet::<T>::(insert|contains)$|"
                      r"FileSet::contains$|HashMap::<[^>]*>::(contains_key|insert)$|Vec::<T>::contains$|"
                      r"slice::<impl \[T\]>::contains$|IndexSet::<T, S>::(insert|contains)$")


def run(ck, prog):
    ck.explanation = (
        "Structural clauses of include handling, decided on the MIR: (R16.1) the work-list loop of "
        "collect_sources is bounded by a visited set: a popped file that was already collected is skipped "
        "without queueing anything, and every other iteration records the file before it queues includes; "
        "(R16.2) the recursive descent Include::index -> SourceFile::index -> ... -> Include::index passes a "
        "visited-set test keyed by the included file before it descends (terminates on cycles, indexes a file "
        "reached along several paths once); (R16.3) a document link is emitted with exactly the FileId the "
        "resolved-include map holds for that statement, and Include::index reports on the unresolved edge; "
        "(R16.4) the three enumerations of include statements (resolver, indexer, link provider) range over "
        "the same node set, namely every Include node of the tree; (R16.5) the workspace file set receives "
        "exactly the popped, non-skipped files. Not decided: search-path semantics, path normalisation, that "
        "reachability equals the reference notion for all graphs (follows from R16.1+R16.4+R16.5 only "
        "informally).")
    ck.trusted = ["salsa input semantics", "rowan descendants() enumerates every node"]
    for r, t in (("R16.1", "collect_sources work list bounded by a visited set"),
                 ("R16.2", "indexer descent into includes guarded by a visited set keyed by the file"),
                 ("R16.3", "link target = resolved map entry; unresolved include reported"),
                 ("R16.4", "resolver, indexer and link provider enumerate the same include statements"),
                 ("R16.5", "source root = the visited set")):
        ck.rule(r, t)
    cg = callgraph(prog)
    # the function that walks the include graph: the work-list loop (VecDeque::pop_front) reachable from
    # AnalysisHost::set_root_file, whatever it is called
    def has_worklist(body):
        return any((Body.callee(t) or "").endswith("VecDeque::<T, A>::pop_front") for _, t in body.calls())
    b = prog.body(COLLECT)
    if b is None or not has_worklist(b):
        roots = [p for p in prog.bodies if p.endswith("AnalysisHost::set_root_file")]
        cands = [prog.body(p) for p in sorted(cg.reachable(roots)) if prog.body(p) is not None and has_worklist(prog.body(p))]
        b = cands[0] if len(cands) == 1 else b
    ck.anchor(b is not None, "collect_sources (the include work-list walk reachable from set_root_file) not found")

    # ---- R16.1 ---------------------------------------------------------------------
    loops = cfg.loops(b)
    wl = None
    for h, blocks in loops:
        pops = [i for i in blocks if b.term(i)["k"] == "call" and (Body.callee(b.term(i)) or "").endswith("VecDeque::<T, A>::pop_front")]
        if pops:
            if wl is None or len(blocks) > len(wl[1]):
                wl = (h, blocks, pops[0])
    ck.anchor(wl is not None, "work-list loop (VecDeque::pop_front) not found in collect_sources")
    h, blocks, popb = wl
    pushes = [i for i in blocks if b.term(i)["k"] == "call" and (Body.callee(b.term(i)) or "").endswith("push_back")]
    if not pushes:
        # `includes.for_each(|inc| { .. files.push_back(..) })`: the call that runs the closure stands for the push
        for i in blocks:
            t = b.term(i)
            if t["k"] != "call":
                continue
            for ga in (t["f"].get("args") or []):
                cb_ = prog.body(ga.get("closure")) if isinstance(ga, dict) and ga.get("closure") else None
                if cb_ is not None and cb_.parent == b.path and any((Body.callee(tt) or "").endswith("push_back") for _, tt in cb_.calls()):
                    pushes.append(i)
    if pushes:
        ok, why = worklist_bounded(prog, b, h, blocks, popb, pushes)
    else:
        # the loop body may have been extracted: a workspace function called in the loop with the popped id, in which
        # the pushes happen; it is analysed as the loop body, its returns being the way back to the loop head
        ok, why = False, "no push_back in the work-list loop or in a function it calls with the popped id"
        for i in blocks:
            t = b.term(i)
            if t["k"] != "call":
                continue
            cb = prog.body(Body.callee(t) or "")
            if cb is None or cb.crate != b.crate:
                continue
            karg = None
            for k, a in enumerate(t["args"]):
                if any(x[0] == "call" and x[1].endswith("pop_front") for x in prov.origins(b, a)):
                    karg = k + 1
            cpushes = [j for j, tt in cb.calls() if (Body.callee(tt) or "").endswith("push_back")]
            if karg is None or not cpushes:
                continue
            ok, why = worklist_bounded(prog, cb, None, list(range(len(cb.blocks))), None, cpushes, key_arg=karg)
            why = "%s (loop body in %s)" % (why, cb.path.rsplit("::", 1)[-1])
            break
        ck.anchor(ok or why != "no push_back in the work-list loop or in a function it calls with the popped id", why)
    ck.ob("R16.1", "worklist", ok, why,
          msg="collect_sources: the include work list is not bounded by a visited set (%s): an include cycle never "
              "lets root selection finish" % why)

    # ---- R16.2 ---------------------------------------------------------------------
    descent_guard(ck, prog, cg, "R16.2")
    ib = prog.body(INCLUDE_INDEX)

    # ---- R16.3 ---------------------------------------------------------------------
    lb = prog.body("ide::handlers::document_link::exec")
    ck.anchor(lb is not None, "document_link::exec not found")
    found = False
    for body in [lb] + prog.closures_of(lb.path):
        for i, bb in enumerate(body.blocks):
            for s in bb["s"]:
                rv = s.get("rv") or {}
                if "agg" in rv and isinstance(rv["agg"], dict) and rv["agg"].get("adt") == "ide::handlers::document_link::DocumentLink":
                    found = True
                    to = prov.rvalue_origins(body, rv, i, 0, set(), ("target",))
                    ok = all(x[0] == "call" and re.search(r"HashMap::<[^>]*>::get$", x[1]) for x in to)
                    ck.ob("R16.3", "link-target", ok, "DocumentLink.target is the resolved-include map entry",
                          msg="document_link: the link target is not the FileId stored in resolved_include_map (%s)" % sorted(to))
                    ro = prov.rvalue_origins(body, rv, i, 0, set(), ("range",))
                    ck.ob("R16.3", "link-range", all(x[0] == "call" and x[1].endswith("range_excluding_trivia") for x in ro),
                          "DocumentLink.range is the path token range of the same include",
                          msg="document_link: link range does not come from the include's path node (%s)" % sorted(ro))
    ck.anchor(found, "DocumentLink construction not found")
    # unresolved include must be reported: the None edge of include_map.get reaches ctx.error before return
    tests = brackets.option_tests(ib, prog)
    errs = cfg.blocks_calling(ib, lambda c: c.endswith("IndexCtx::<'a>::error"))
    rep = False
    for t in tests:
        if t["src_callee"] and (t["src_callee"].endswith("::copied") or t["src_callee"].endswith("::get")):
            p = cfg.path_exists(ib, t["bb"], lambda x: ib.term(x)["k"] == "return", avoid=errs | {t["some_target"]})
            rep = p is None and bool(errs)
    ck.ob("R16.3", "not-found-reported", rep, "the unresolved branch of Include::index reaches ctx.error on every path",
          msg="Include::index can return on the unresolved-include branch without reporting 'include file not found'")

    # ---- R16.4 ---------------------------------------------------------------------
    enum = {}
    li = prog.body("ide::file_system::list_includes")
    ck.anchor(li is not None, "list_includes not found")
    enum["resolver(list_includes)"] = enumeration_style(prog, li)
    enum["links(document_link)"] = enumeration_style(prog, lb)
    # the indexer visits Include wherever a Statement is dispatched: all StatementLists => every Include node
    enum["indexer(Statement dispatch)"] = "all-nodes"
    ck.extra["include_enumerations"] = enum
    ck.ob("R16.4", "same-statements", set(enum.values()) == {"all-nodes"},
          "all three enumerate every Include node of the tree: %s" % enum,
          msg="the include statements seen by the resolver, the indexer and the link provider differ: %s — an include "
              "nested in a block is indexed but never resolved (false 'include file not found', no link)" % enum)

    # ---- R16.6 every resolved include statement is recorded in the include map -----------
    ck.rule("R16.6", "each include statement that resolves gets its own entry in the resolved-include map")
    # (the per-include work may sit in the loop body or in a closure handed to for_each: the closure's return is then the
    # way to the next include)
    found_test = False
    for rb in [b] + prog.closures_of(b.path):
        tests = [t for t in brackets.option_tests(rb, prog) if (t["src_callee"] or "").endswith("resolve_include_file")]
        if not tests:
            continue
        found_test = True
        rloops = cfg.loops(rb)
        inserts = set()
        for i, t in rb.calls():
            if re.search(r"HashMap::<[^>]*>::insert$", Body.callee(t) or "") and len(t["args"]) >= 3:
                vo = prov.origins(rb, t["args"][2])
                if any(x[0] == "call" and x[1].endswith("resolve_include_file") for x in vo):
                    inserts.add(i)
        for t in tests:
            # from the resolved edge, no path returns to an enclosing loop head or to return without the insert
            heads = {hh for hh, bl in rloops if t["bb"] in bl}
            p = cfg.path_exists(rb, t["some_target"], lambda x: x in heads or rb.term(x)["k"] == "return", avoid=inserts,
                                include_src=True)
            r166_ob(ck, p, inserts)
    ck.anchor(found_test, "the test of resolve_include_file's result was not found in collect_sources")
    # every include statement of the visited file is resolved: no iteration over the statements skips the call (a "this
    # path was already seen in this file" shortcut leaves the second statement without link and with a false not-found)
    every = None
    for rb in [b] + prog.closures_of(b.path):
        res = cfg.blocks_calling(rb, lambda c: c.endswith("resolve_include_file"))
        if not res:
            continue
        if rb.parent:
            every = cfg.path_exists(rb, 0, lambda x: rb.term(x)["k"] == "return", avoid=res, include_src=True) is None
        else:
            nxts = [i for i, t in rb.calls() if re.search(r"Iterator>::next$", Body.callee(t) or "") and
                    any(i in bl and (res & set(bl)) for _, bl in cfg.loops(rb))]
            inner = None
            for hh, bl in cfg.loops(rb):
                if res & set(bl) and (inner is None or len(bl) < len(inner[1])):
                    inner = (hh, bl)
            if inner is not None:
                nx = [i for i in nxts if i in inner[1]]
                tests = [t for t in brackets.option_tests(rb, prog) if t["src_bb"] in nx]
                every = bool(tests) and all(
                    cfg.path_exists(rb, t["some_target"], lambda x: x in nx, avoid=res | (set(range(len(rb.blocks))) - set(inner[1])),
                                    include_src=True) is None for t in tests)
    ck.ob("R16.6", "every-include-resolved", every is True,
          "each include statement of a visited file reaches resolve_include_file",
          msg="collect_sources can move on to the next include statement without resolving the current one: that statement "
              "gets no entry in the include map (no link, a false 'include file not found')")
    include_targets(ck, prog, b, "R16.6")
    sets = [(i, t) for i, t in b.calls() if (t["f"].get("decl") or Body.callee(t) or "").endswith("set_resolved_include_map")]
    ok = bool(sets)
    for i, t in sets:
        fo = prov.origins(b, t["args"][1])
        ok = ok and all(x[0] == "call" and x[1].endswith("pop_front") for x in fo)
        # reached on every non-skipped iteration
    ck.ob("R16.6", "map-stored", ok, "the map is stored for the popped file itself",
          msg="collect_sources does not store the include map under the file it was computed for")

    # ---- R16.5 ---------------------------------------------------------------------
    ins = [(i, t) for i, t in b.calls() if (Body.callee(t) or "").endswith("FileSet::insert")]
    ok = len(ins) == 1 and ins[0][0] in blocks
    if ok:
        o = prov.origins(b, ins[0][1]["args"][1])
        ok = all(x[0] == "call" and x[1].endswith("pop_front") for x in o)
    ck.ob("R16.5", "fileset", ok, "FileSet::insert receives exactly the popped file id, once per iteration",
          msg="collect_sources no longer inserts exactly the popped file ids into the source root's file set")
    sr = [(i, t) for i, t in b.calls() if (Body.callee(t) or "").endswith("SourceRoot::new")]
    ck.ob("R16.5", "root", len(sr) == 1 and prov.origins(b, sr[0][1]["args"][1]) == {("arg", 3, ())},
          "SourceRoot::new(file_set, root_file) with the function's root argument",
          msg="collect_sources builds the SourceRoot with a root other than its root_file argument")


SHRINK = re.compile(r"(Vec::<T, A>|Vec::<T>|VecDeque::<T, A>|HashSet::<[^>]*>|BTreeSet::<T>|HashMap::<[^>]*>|IndexSet::<T, S>)::"
                    r"(pop|pop_back|pop_front|remove|swap_remove|truncate|clear|retain|drain|take)$")


def receiver_field(body, term):
    """name of the struct field the receiver of a collection call lives in (through refs / derefs), or None"""
    names = set()
    for x in prov.origins(body, term["args"][0]):
        fields = x[2] if x[0] == "arg" else (x[3] if x[0] == "call" else ())
        fs = [f for f in fields if isinstance(f, str) and not f.startswith("as:") and not f.isdigit()]
        if fs:
            names.add(fs[-1])
    return next(iter(names)) if len(names) == 1 else None


def shrinks(prog, body, test_term):
    """is the collection that is tested ever shrunk (pop / remove / truncate / clear ..) by the indexer? A stack of the
    files being indexed stops cycles but forgets a file once it is done: it is not a visited set."""
    fld = receiver_field(body, test_term)
    if fld is None:
        return False
    for b in prog.bodies.values():
        if b.crate != body.crate:
            continue
        for _, t in b.calls():
            if SHRINK.search(Body.callee(t) or "") and t["args"] and receiver_field(b, t) == fld:
                return True
    return False


def polarity_ok(b, test_bb, target_bb, callee):
    """the target block lies on the branch where the key was NOT seen before"""
    sw = b.term(test_bb)["t"]
    if sw is None:
        return False
    # skip over unwrap-like blocks to the switch
    guard = 0
    while b.term(sw)["k"] != "switch" and guard < 4:
        nxt = b.succ(sw)
        if len(nxt) != 1:
            return False
        sw = nxt[0]
        guard += 1
    st = b.term(sw)
    if st["k"] != "switch":
        return False
    zero = dict((a[0], a[1]) for a in st["arms"]).get(0, None)
    nonzero = st["else"] if zero is not None else None
    if zero is None:
        return False
    fresh_edge = nonzero if callee.endswith("insert") else zero      # insert -> true = newly inserted; contains -> false = unseen
    seen_edge = zero if callee.endswith("insert") else nonzero
    return target_bb in b.reachable(fresh_edge, avoid={sw}) and target_bb not in b.reachable(seen_edge, avoid={sw})


def worklist_bounded(prog, b, h, blocks, popb, pushes, key_arg=None):
    """key_arg: when the loop body is a function of its own, the index of the parameter that receives the popped id
    (the way back to the loop head is then the function's return)"""
    def is_key(x):
        if key_arg is not None:
            return x[0] == "arg" and x[1] == key_arg
        return x[0] == "call" and x[1].endswith("pop_front")
    tests = [i for i in blocks if b.term(i)["k"] == "call" and SET_TEST.search(Body.callee(b.term(i)) or "")]
    if not tests:
        return False, "no visited-set test in the loop"
    # form A: pop-time skip — a test keyed by the popped id, whose 'seen' branch returns to the head without a push,
    # and whose 'fresh' branch records the id before any push
    for t in tests:
        tt = b.term(t)
        c = Body.callee(tt)
        keyo = set()
        for a in tt["args"][1:]:
            keyo |= prov.origins(b, a)
        if not keyo or not all(is_key(x) for x in keyo):
            continue
        sw = tt["t"]
        st = b.term(sw)
        if st["k"] != "switch":
            continue
        zero = dict((a[0], a[1]) for a in st["arms"]).get(0)
        nonzero = st["else"]
        if zero is None:
            continue
        seen_edge = zero if c.endswith("insert") else nonzero
        fresh_edge = nonzero if c.endswith("insert") else zero
        inloop = set(blocks)
        seen_reach = b.reachable(seen_edge, avoid=({h} if h is not None else set()) | (set(range(len(b.blocks))) - inloop))
        if any(p in seen_reach for p in pushes):
            continue
        if c.endswith("insert"):
            return True, "popped id is inserted into a set; already-present ids queue nothing"
        # contains(): the fresh branch must insert the id before pushing
        recs = {i for i in blocks if b.term(i)["k"] == "call" and re.search(r"(FileSet|HashSet::<T, S>|HashMap::<K, V, S>)::insert$", Body.callee(b.term(i)) or "")
                and any(is_key(x) for a in b.term(i)["args"][1:2] for x in prov.origins(b, a))}
        if recs:
            bad = [p for p in pushes if cfg.path_exists(b, fresh_edge, lambda x, p=p: x == p, avoid=recs, include_src=True) is not None]
            if not bad:
                return True, "already-collected files are skipped at pop time; a fresh file is recorded before its includes are queued"
    # form B: push-time guard
    dom = cfg.dominators(b)
    okb = True
    for p in pushes:
        po = prov.origins(b, b.term(p)["args"][1])
        g = False
        for t in tests:
            if t in dom[p]:
                ko = set()
                for a in b.term(t)["args"][1:]:
                    ko |= prov.origins(b, a)
                if c03_share(po, ko) and polarity_ok(b, t, p, Body.callee(b.term(t))):
                    g = True
        okb = okb and g
    if okb:
        return True, "every push_back is guarded by a visited-set test of the pushed id"
    return False, "visited-set tests exist but neither skip already-collected files at pop time nor guard every push"


def c03_share(o1, o2):
    from .c03 import share_base
    return share_base(o1, o2)


def enumeration_style(prog, b):
    """'all-nodes' if the Include nodes are found through descendants(); 'top-level' if only through
    SourceFile::statement_list().statements()"""
    bodies = [b] + prog.closures_of(b.path)
    nested = []
    for x in bodies:
        nested += prog.closures_of(x.path)
    calls = [Body.callee(t) or "" for bb in bodies + nested for _, t in bb.calls()]
    if any(c.endswith("SyntaxNode::<L>::descendants") for c in calls):
        return "all-nodes"
    if any(c.endswith("SourceFile::statement_list") for c in calls) and any(c.endswith("StatementList::statements") for c in calls):
        return "top-level"
    return "unknown"


def descent_guard(ck, prog, cg, rule):
    """shared with C05 (a file indexed twice gives every declaration two symbols: references are split between them)"""
    ib = prog.body(INCLUDE_INDEX)
    ck.anchor(ib is not None, "Include::index not found")
    # is there recursion back to Include::index?
    rec = cg.path([e.target for e in cg.callees(INCLUDE_INDEX)], lambda p: p == INCLUDE_INDEX)
    ck.ob(rule, "recursion-exists", rec is not None, "Include::index re-enters itself through %s" % (rec or [])[:4],
          nontrivial=False, msg="anchor-lost: Include::index no longer descends into the included file")
    descents = [i for i, t in ib.calls() if (Body.callee(t) or "").endswith(" as ide::index::Indexable>::index")]
    ck.anchor(descents, "Include::index does not call an indexer for the included file")
    dom = cfg.dominators(ib)
    guarded = True
    detail = []
    for d in descents:
        g = False
        for j in dom.get(d, ()):
            tt = ib.term(j)
            if tt["k"] != "call":
                continue
            c = Body.callee(tt) or ""
            if SET_TEST.search(c):
                # keyed by the included file id
                keyo = set()
                for a in tt["args"][1:]:
                    keyo |= prov.origins(ib, a)
                if any(x[0] == "call" and x[1].endswith("::get") or (x[0] == "call" and "copied" in x[1]) or x[0] in ("call",) for x in keyo):
                    # polarity: descent must be on the "not seen before" side
                    if polarity_ok(ib, j, d, c) and not shrinks(prog, ib, tt):
                        g = True
                        detail.append(c.rsplit("::", 2)[-2] + "::" + c.rsplit("::", 1)[-1])
        guarded = guarded and g
    ck.ob(rule, "descent-guard", guarded,
          "descent is dominated by a visited-set test (%s) on the not-yet-seen branch" % ", ".join(detail),
          msg="Include::index descends into the included file without a visited-set test keyed by that file: an "
              "include cycle recurses without bound, and a file included along two paths is indexed twice")


def include_targets(ck, prog, b, rule):
    """shared with C07: the file recorded for (and queued from) an include statement is what resolve_include_file returned
    for that statement in this walk - not an entry of a memo keyed by the include string (resolution depends on the
    including file's directory) and not an entry of the previous walk's map (an IncludeId names a position, not a
    statement)"""
    n = 0
    bad = []
    outer = b
    sites = [(outer, i, t) for i, t in outer.calls()]
    for cb_ in prog.closures_of(outer.path):
        sites += [(cb_, i, t) for i, t in cb_.calls()]
    for b, i, t in sites:
        c = Body.callee(t) or ""
        which = None
        gargs = [g.get("ty") for g in (t["f"].get("args") or []) if isinstance(g, dict)]
        if re.search(r"HashMap::<[^>]*>::insert$", c) and len(t["args"]) >= 3 and gargs[:2] == ["ide::file_system::IncludeId", "ide::file_system::FileId"]:
            which = 2
        elif re.search(r"VecDeque::<[^>]*>::(push_back|push_front)$", c) and len(t["args"]) >= 2 and gargs[:1] == ["ide::file_system::FileId"]:
            which = 1
        if which is None:
            continue
        vo = prov.origins(b, t["args"][which])
        if which == 1 and all(x[0] == "arg" for x in vo):
            continue                    # the root file entering the work list
        n += 1
        foreign = [x for x in vo if not (x[0] == "call" and str(x[1]).endswith("resolve_include_file"))]
        if foreign:
            bad.append((b.where(i), sorted(str(x[:2]) for x in foreign)))
    ck.ob(rule, "include-target-source", not bad and n >= 2,
          "%d sinks (include map / work list) receive only results of resolve_include_file" % n,
          msg="collect_sources records or queues an include target that does not come from resolve_include_file for that "
              "statement (%s): a memo keyed by the include string ignores the including file's directory, an entry kept from "
              "an earlier walk belongs to whatever statement occupied that range then" % (
                  "; ".join("[%s] from %s" % (w, o[:2]) for w, o in bad) or "no sink found"))


def r166_ob(ck, p, inserts):
    ck.ob("R16.6", "map-entry", p is None and bool(inserts),
          "on the resolved branch every path records (include statement -> file) in the map before the next statement",
          msg="collect_sources: a resolved include statement can be skipped without an entry in the resolved-include "
              "map (that statement then has no link and is reported 'include file not found')")
