"""C01 Lossless syntax tree — the token-accounting discipline between ParserBase, PreProcessor and Lexer."""
from .. import grammar_facts as gf, prov, paths, cfg
from ..facts import Body, op_local, op_const
from ..callgraph import callgraph
from . import c02

PB = "syntax::parser::ParserBase::<T>::"
TS = "syntax::token_stream::TokenStream::"
TOKENKIND = "syntax::token_kind::TokenKind"
TOKEN = "rowan::GreenNodeBuilder::<'_>::token"


def run(ck, prog):
    ck.explanation = (
        "Losslessness is a token-accounting discipline; each clause below is a necessary condition whose "
        "violation loses, duplicates or mis-ranges text for some input, and together (with rowan reproducing "
        "the token texts it is given and unscanny's cursor semantics) they give the property for all inputs. "
        "Decided on the MIR: (R01.1) every GreenNodeBuilder::token call writes the current token: kind = the "
        "parser's `current`, text = token_stream.text(current_range); (R01.2) abstract interpretation of the "
        "whole parser with a saved/unsaved typestate: every token is written exactly once before the next is "
        "lexed, on every path of every grammar function, and `current` only ever receives a value returned by "
        "token_stream.eat(); (R01.3) current_range is cursor()-before .. cursor()-after exactly one eat(), so "
        "consecutive ranges are contiguous; (R01.4) parsing returns only at Eof, after source_file, so every "
        "token reaches the tree; (R01.5) the stream wrappers forward cursor/text unchanged; (R01.6) the Eof "
        "kind is produced only when the scanner is exhausted and nothing was consumed; constructors consume "
        "nothing; the only backwards jump targets a cursor value read after the token start; every non-Eof "
        "token is non-empty. Trusted: rowan, unscanny.")
    ck.trusted = ["rowan reproduces token texts in order", "unscanny::Scanner cursor/get/jump contract"]
    for r, t in (("R01.1", "what is written: kind=current, text=text(current_range)"),
                 ("R01.2", "save/lex alternation on all paths (typestate in the parser abstract interpretation)"),
                 ("R01.3", "token range = cursor .. eat .. cursor"),
                 ("R01.4", "nothing left behind: the parse ends only at Eof"),
                 ("R01.5", "stream wrappers are transparent for cursor/text"),
                 ("R01.6", "Eof only at true end of input; constructors consume nothing; bounded jump-back; non-empty tokens")):
        ck.rule(r, t)
    g = gf.get(prog)
    ck.count(g.states)
    ck.extra["grammar_ai"] = {"contexts": g.contexts, "states": g.states}

    # ---- R01.1 ---------------------------------------------------------------------------
    sites = [(b, i, t) for b, i, t in prog.call_sites(lambda c: c == TOKEN) if b.crate == "syntax.rlib"]
    ck.floor("R01.1", "GreenNodeBuilder::token call sites", len(sites), 1)
    for b, i, t in sites:
        kind_o = prov.origins(b, t["args"][1])
        text_o = prov.origins(b, t["args"][2])
        kind_ok = all((o[0] == "call" and o[1] == PB + "peek") or (o[0] == "arg" and o[2][-1:] == ("current",)) for o in kind_o)
        text_ok = False
        if len(text_o) == 1:
            o = next(iter(text_o))
            if o[0] == "call" and o[1] == TS + "text":
                tt = b.term(o[2])
                ro = prov.origins(b, tt["args"][1])
                text_ok = all(x[0] == "arg" and x[1] == 1 and x[2][-1:] == ("current_range",) for x in ro)
        ck.ob("R01.1", "token-write:%s" % b.path, kind_ok and text_ok,
              "token(kind <- %s, text <- token_stream.text(self.current_range))" % sorted(kind_o),
              msg="%s writes a leaf whose kind/text is not (current, text(current_range)): kind from %s, text from %s [%s]" % (
                  b.path, sorted(kind_o), sorted(text_o), b.where(i)))

    # ---- R01.2 ---------------------------------------------------------------------------
    for (what, where), info in g.discipline.items():
        msgs = {"double-save": "a token can be written to the tree twice (duplicated text)",
                "lex-without-save": "the next token can be lexed before the current one was written (dropped text)",
                "current-not-lexed": "`current` is overwritten with a value that did not come from token_stream.eat() (tokens skipped or invented)",
                "token-kind-not-current": "a leaf is written with a kind other than the current token's"}
        ck.ob("R01.2", "%s:%s" % (what, where), False, msg="%s: %s (%s)" % (where, msgs.get(what, what), info))
    ck.ob("R01.2", "typestate", not g.discipline,
          "unsaved -token()-> saved -lex-> unsaved holds in all %d contexts / %d abstract states" % (g.contexts, g.states))
    ck.ob("R01.2", "analysis-supported", not g.unsupported, "interpreter met no unsupported construct",
          msg="parser analysis met constructs it cannot interpret: %r" % (g.unsupported,), nontrivial=False)
    # writers of `current` outside the interpreted parser (must be none): any body writing field current
    writers = set()
    for p, b in prog.bodies.items():
        if b.crate != "syntax.rlib":
            continue
        for bb in b.blocks:
            for s in bb["s"]:
                pl = s.get("a")
                if pl and pl["p"] and isinstance(pl["p"][-1], dict) and pl["p"][-1].get("n") == "current" and \
                        "parser::ParserBase" in (b.impl_self or ""):
                    writers.add(p)
    unseen = {w for w in writers if w not in g.functions}
    ck.ob("R01.2", "current-writers-covered", not unseen, "every function assigning `current` was interpreted: %s" % sorted(writers),
          msg="functions assign ParserBase::current but are never reached by the analysis: %s" % sorted(unseen))

    # ---- R01.3 (shared with C02 R02.6b) -----------------------------------------------------
    sub = _Sub(ck, "R01.3")
    c02.rule_r026_token_range(sub, prog)

    # ---- R01.4 ---------------------------------------------------------------------------
    root = g.root_outcomes or ()
    ck.anchor(root, "source_file has no outcome")
    ck.ob("R01.4", "ends-at-eof", all(o[0] == frozenset(["Eof"]) for o in root),
          "source_file returns only with look-ahead Eof in all %d outcomes" % len(root),
          msg="source_file can return before the end of input (remaining tokens never reach the tree): %s" % [
              sorted(o[0])[:5] for o in root if o[0] != frozenset(["Eof"])][:3])
    pb = prog.body("syntax::parse")
    ck.anchor(pb is not None, "syntax::parse not found")
    order = [Body.callee(t) for _, t in pb.calls()]
    want = ["syntax::lexer::Lexer::<'a>::new", "syntax::preprocessor::PreProcessor::<T>::new", PB + "new",
            "syntax::grammar::source_file", PB + "finish"]
    idx = [order.index(w) if w in order else -1 for w in want]
    ck.ob("R01.4", "parse-sequence", all(i >= 0 for i in idx) and idx == sorted(idx),
          "parse = Lexer::new(text) -> PreProcessor::new -> Parser::new -> source_file -> finish",
          msg="syntax::parse no longer runs Lexer -> PreProcessor -> Parser -> source_file -> finish: %s" % order)
    # the text handed to the lexer is parse's own argument
    for i, t in pb.calls():
        if Body.callee(t) == "syntax::lexer::Lexer::<'a>::new":
            o = prov.origins(pb, t["args"][0])
            ck.ob("R01.4", "lexer-input", o == {("arg", 1, ())}, "Lexer::new receives parse's text argument unchanged",
                  msg="syntax::parse hands the lexer something other than its input text: %s" % sorted(o))

    # ---- R01.5 ---------------------------------------------------------------------------
    wrappers = [
        ("<syntax::preprocessor::PreProcessor<T> as syntax::token_stream::TokenStream>::cursor", TS + "cursor"),
        ("<syntax::preprocessor::PreProcessor<T> as syntax::token_stream::TokenStream>::text", TS + "text"),
        ("<syntax::lexer::Lexer<'a> as syntax::token_stream::TokenStream>::cursor", "unscanny::Scanner::<'a>::cursor"),
        ("<syntax::lexer::Lexer<'a> as syntax::token_stream::TokenStream>::text", "unscanny::Scanner::<'a>::get"),
    ]
    for w, inner in wrappers:
        b = prog.body(w)
        ck.anchor(b is not None, w + " not found")
        calls = [(i, t) for i, t in b.calls()]
        ok = len(calls) == 1 and ((calls[0][1]["f"].get("decl") or Body.callee(calls[0][1])) == inner or Body.callee(calls[0][1]) == inner)
        if ok:
            i, t = calls[0]
            # result returned unchanged, extra arguments forwarded unchanged
            ret_o = prov.origins(b, 0)
            ok = ret_o == {("call", Body.callee(t), i, ())}
            for k, a in enumerate(t["args"][1:], start=2):
                ok = ok and prov.origins(b, a) == {("arg", k, ())}
        ck.ob("R01.5", "wrapper:%s" % w, ok, "%s forwards to %s unchanged" % (w, inner),
              msg="%s is no longer a pass-through to %s (cursor/text seen by the parser differ from the scanner's)" % (w, inner))

    # ---- R01.6 ---------------------------------------------------------------------------
    cg = callgraph(prog)
    streams = [p for p in prog.bodies if p.endswith(" as syntax::token_stream::TokenStream>::eat")]
    reach = cg.reachable(streams)
    eof_makers = []
    for p in sorted(reach):
        b = prog.bodies[p]
        if b.crate != "syntax.rlib":
            continue
        for i, bb in enumerate(b.blocks):
            if bb["cleanup"]:
                continue
            for s in bb["s"]:
                rv = s.get("rv") or {}
                if "agg" in rv and isinstance(rv["agg"], dict) and rv["agg"].get("adt") == TOKENKIND and \
                        rv["agg"]["variant"] == "Eof":
                    eof_makers.append((p, i))
    nb = prog.body("syntax::lexer::Lexer::<'a>::next_token")
    ck.anchor(nb is not None, "Lexer::next_token not found")
    for p, i in eof_makers:
        ok = False
        if p == nb.path:
            # the block must be reachable only through the None arm of the match on Scanner::eat()
            for pth in paths.enum_paths(nb, prog, limit=60000):
                if i in pth.blocks:
                    none_arm = any(e[0] == "branch" and e[2].kind == "discr" and
                                   e[2].data[1].startswith("std::option::Option<char") and e[3] == 0 for e in pth.events)
                    ok = none_arm
                    if not none_arm:
                        break
        ck.ob("R01.6", "eof-maker:%s" % p, ok, "TokenKind::Eof is produced only when Scanner::eat() returned None",
              msg="%s produces TokenKind::Eof although input may have been consumed: the consumed text is attached to a "
                  "token that is never written to the tree [%s]" % (p, prog.bodies[p].where(i)))
    ck.floor("R01.6", "Eof producers", len(eof_makers), 1)
    for ctor, allowed in (("syntax::lexer::Lexer::<'a>::new", ("unscanny::Scanner::<'a>::new",)),
                          ("syntax::preprocessor::PreProcessor::<T>::new", ())):
        b = prog.body(ctor)
        ck.anchor(b is not None, ctor + " not found")
        bad = [Body.callee(t) for _, t in b.calls()
               if (Body.callee(t) or "").startswith("unscanny::") and Body.callee(t) not in allowed
               or (t["f"].get("decl") or "").startswith(TS)]
        ck.ob("R01.6", "ctor:%s" % ctor, not bad, "%s consumes no input" % ctor,
              msg="%s touches the input before the first token is lexed (%s): the text before the first cursor() is lost" % (ctor, bad))
    whole_text(ck, prog, "R01.6")
    sub = _Sub(ck, "R01.6")
    c02.rule_r028(sub, prog)


class _Sub:
    """re-labels obligations of a shared rule under this property's rule id"""

    def __init__(self, ck, rule):
        self.ck, self.rule_id = ck, rule

    def ob(self, rule, key, ok, detail="", **kw):
        return self.ck.ob(self.rule_id, key, ok, detail, **kw)

    def floor(self, rule, what, n, floor):
        return self.ck.floor(self.rule_id, what, n, floor)

    def anchor(self, cond, what):
        return self.ck.anchor(cond, what)

    def __getattr__(self, name):
        return getattr(self.ck, name)


def whole_text(ck, prog, rule):
    """shared with C17 (a tree built over a suffix of the text has every range shifted against the document)"""
    # the scanner is built over exactly the text that was handed in (no slice, trim or prefix strip on the way):
    # syntax::parse -> Lexer::new -> Scanner::new, each argument being the caller's own parameter
    from .. import prov as _prov
    chain = (("syntax::parse", "syntax::lexer::Lexer::<'a>::new"),
             ("syntax::lexer::Lexer::<'a>::new", "unscanny::Scanner::<'a>::new"))
    for caller, callee in chain:
        cb = prog.body(caller)
        ck.anchor(cb is not None, caller + " not found")
        sites = [(i, t) for i, t in cb.calls() if Body.callee(t) == callee]
        ck.anchor(len(sites) >= 1, "%s no longer calls %s" % (caller, callee))
        for i, t in sites:
            o = _prov.origins(cb, t["args"][0])
            ok = bool(o) and all(x[0] == "arg" and x[1] == 1 and not x[2] for x in o)
            ck.ob(rule, "whole-text:%s" % caller.rsplit("::", 2)[-2 if caller.endswith("::new") else -1], ok,
                  "%s passes its own text argument, unchanged, to %s" % (caller, callee.rsplit("::", 2)[-2]),
                  msg="%s hands %s something other than the text it was given (%s): text that is cut off before lexing never "
                      "reaches the tree and every range is shifted" % (caller, callee, sorted(map(str, o))[:3]))
