"""C08 Server liveness — lock-order analysis (necessary condition: no lock-order inversion between the
main loop and worker tasks, no blocking primitive in handlers, no re-entrant acquisition)."""
from .. import locks
from ..callgraph import callgraph
from ..facts import Body

SERVER_TRAIT_IMPL = "<lsp::server::Server as async_lsp::LanguageServer>::"


def roles(ck, prog, cg):
    main_roots = [p for p in prog.bodies if p.startswith(SERVER_TRAIT_IMPL) and prog.bodies[p].parent is None]
    main_roots += [p for p in prog.bodies if p.startswith("lsp::server::Server::") and prog.bodies[p].parent is None]
    ck.anchor(len(main_roots) >= 10, "Server handler methods not found")
    main = cg.reachable(main_roots)
    spawn_targets = []
    for p, es in cg.out.items():
        for e in es:
            if e.kind == "spawn":
                spawn_targets.append((p, e.target))
    ck.anchor(spawn_targets, "no task-spawning site found in the server (spawn_with_snapshot changed shape?)")
    worker = {}
    for spawner, tgt in spawn_targets:
        worker[tgt] = cg.reachable([tgt])
    return main_roots, main, spawn_targets, worker


def run(ck, prog):
    ck.explanation = (
        "Lock-order analysis over the MIR of lsp+ide: resources = every std/tokio lock acquired anywhere "
        "in the workspace (identified by the locked type) and salsa's revision lock (held shared for the "
        "lifetime of any value containing salsa::Snapshot, acquired exclusively inside any call that "
        "reaches salsa::QueryTableMut::set*). Guard live ranges are computed on the CFG from the "
        "acquiring call to the guard's Drop/ownership hand-off; thread roles are the main loop (Server "
        "methods and what they call) and worker tasks (closures handed to a spawn API and what they "
        "call, through the whole-program call graph). Reported: every pair of acquire-while-holding "
        "edges in different roles that forms a cycle with conflicting modes (R08.1), blocking primitives "
        "in either role (R08.2), re-acquisition of a held lock on one thread (R08.3). This decides the "
        "absence of lock-order deadlocks between the modelled resources; it does not decide liveness in "
        "general (fairness, starvation, every request answered).")
    ck.trusted = ["salsa 0.16: input writes wait for all snapshots (documented); snapshots hold the revision "
                  "lock shared", "std::sync::RwLock semantics", "tokio spawn_blocking runs the closure on another thread"]
    ck.rule("R08.1", "no cycle in the acquire-while-holding graph across thread roles with conflicting modes")
    ck.rule("R08.2", "no blocking primitive (recv/join/block_on/sleep/condvar) reachable in handlers or workers")
    ck.rule("R08.3", "no lock is re-acquired by a thread that already holds it")
    cg = callgraph(prog)
    lm = locks.LockModel(prog)
    main_roots, main, spawn_targets, worker = roles(ck, prog, cg)
    ck.extra["main_role_bodies"] = len(main)
    ck.extra["worker_roots"] = [t for _, t in spawn_targets]
    ck.extra["lock_acquisition_sites"] = [
        {"resource": a.res, "mode": a.mode, "in": a.body, "held_over_blocks": len(a.region)} for a in lm.acqs]

    # ---- edges: (role, holder fn, heldRes, heldMode) -> (acqRes, acqMode, via)
    edges = []

    def add_edges_for_guards(role, bodies):
        for a in lm.acqs:
            if a.body not in bodies:
                continue
            b = prog.bodies[a.body]
            for e in cg.out[a.body]:
                if e.bb is None or e.bb not in a.region or e.bb == a.bb:
                    continue
                acquired = set()
                if e.kind in ("call", "virtual", "funarg") and e.target in prog.bodies:
                    acquired = lm.summary(e.target)
                elif e.kind == "ext":
                    for (r, m, bb) in lm.direct.get(a.body, ()):
                        if bb == e.bb:
                            acquired = {(r, m)}
                for (r, m) in acquired:
                    edges.append(dict(role=role, holder=a.body, held=a.res, held_mode=a.mode,
                                      acq=r, acq_mode=m, via=e.target, line=b.where(e.bb)))

    add_edges_for_guards("main", main)
    n_worker_acq = 0
    for root, bodies in worker.items():
        add_edges_for_guards("worker", bodies)
        # a worker whose closure owns a snapshot holds the revision lock (shared) for its whole life
        rb = prog.bodies[root]
        owns = any(locks.type_holds(prog, u["t"], "salsa::Snapshot<") for u in (rb.upvars or []))
        ck.count(len(bodies))
        if owns:
            for p in bodies:
                for (r, m, bb) in lm.direct.get(p, ()):
                    if r == locks.REV and m == "S":
                        continue
                    n_worker_acq += 1
                    edges.append(dict(role="worker", holder=root, held=locks.REV, held_mode="S",
                                      acq=r, acq_mode=m, via=p, line=prog.bodies[p].where(bb)))
    ck.extra["acquire_while_holding_edges"] = len(edges)
    for e in edges[:6]:
        ck.sample(e)

    # ---- R08.1 cycles between roles (2-cycles; the resource set here is tiny, longer cycles need >2 locks)
    main_edges = [e for e in edges if e["role"] == "main"]
    worker_edges = [e for e in edges if e["role"] == "worker"]
    found = 0
    for me in main_edges:
        for we in worker_edges:
            if me["held"] == we["acq"] and me["acq"] == we["held"] and \
                    locks.conflicts(me["held_mode"], we["acq_mode"]) and locks.conflicts(me["acq_mode"], we["held_mode"]):
                found += 1
                key = "inversion:main=%s:worker=%s" % (me["holder"], we["via"])
                ck.ob("R08.1", key, False,
                      msg="lock-order inversion: main loop %s holds %s(%s) while acquiring %s(%s) via %s [%s]; "
                          "a worker task (%s) holds %s(%s) and acquires %s(%s) in %s [%s]" % (
                              me["holder"], me["held"], me["held_mode"], me["acq"], me["acq_mode"], me["via"], me["line"],
                              we["holder"], we["held"], we["held_mode"], we["acq"], we["acq_mode"], we["via"], we["line"]),
                      extra={"main_edge": me, "worker_edge": we,
                             "main_chain": lm.witness(me["via"], me["acq"], me["acq_mode"]) if me["via"] in prog.bodies else None})
    # every guard acquisition analysed is an obligation (its region raised no inversion)
    bad_holders = {v[1].split(":worker=")[0] for v in ck.violations if v[0] == "R08.1"}
    for a in lm.acqs:
        role = "main" if a.body in main else "worker" if any(a.body in w for w in worker.values()) else None
        if role is None:
            continue
        involved = any(a.body in k for k in bad_holders) or \
            any(v[0] == "R08.1" and v[1].endswith("worker=" + a.body) for v in ck.violations)
        if not involved:
            ck.ob("R08.1", "guard:%s:%s:%s" % (role, a.body, a.res), True,
                  "%s guard of %s(%s) in %s: no conflicting acquisition inside its live range (%d blocks)" % (
                      role, a.res, a.mode, a.body, len(a.region)))
    ck.floor("R08.1", "lock acquisition sites in lsp", len([a for a in lm.acqs if a.body.startswith(("lsp::", "<lsp::"))]), 3)

    # ---- R08.2 blocking primitives
    nb = 0
    for role, bodies in [("main", main)] + [("worker", w) for w in worker.values()]:
        for p in bodies:
            for (c, bb, t) in cg.ext_calls(p):
                nb += 1
                if locks.BLOCKING.match(c or ""):
                    ck.ob("R08.2", "blocking:%s:%s:%s" % (role, p, c), False,
                          msg="%s role: %s calls blocking primitive %s [%s]" % (role, p, c, prog.bodies[p].where(bb)))
    ck.ob("R08.2", "scan", True, "scanned %d external call sites in main/worker roles against the blocking-API table" % nb)
    ck.count(nb)

    # ---- R08.3 re-entrant acquisition
    for e in edges:
        if e["held"] == e["acq"] and e["held"] != locks.REV:
            ck.ob("R08.3", "reentrant:%s:%s" % (e["holder"], e["held"]), False,
                  msg="%s acquires %s(%s) again while holding it (%s) via %s [%s]" % (
                      e["holder"], e["acq"], e["acq_mode"], e["held_mode"], e["via"], e["line"]))
        if e["held"] == locks.REV and e["acq"] == locks.REV and e["acq_mode"] == "X":
            ck.ob("R08.3", "snapshot-then-write:%s" % e["holder"], False,
                  msg="%s writes a salsa input while the same thread still owns a snapshot: self-deadlock [%s]" % (
                      e["holder"], e["line"]))
    ck.ob("R08.3", "scan", True, "%d acquire-while-holding edges inspected for re-entrancy" % len(edges))
