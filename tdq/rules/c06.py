"""C06 Definition/reference coherence — origin pairs and single symbol table (provenance rules)."""
import re

from .. import prov, cfg
from ..facts import Body, op_local

IDENT = "ide::index::utils::identifier"
NAMEVAL = "ide::index::index_name_value"
CTORS = re.compile(r"^ide::symbol_map::(record::Record|template_arg::TemplateArgument|record_field::RecordField|"
                   r"variable::Variable|defset::Defset|multiclass::Multiclass|defm::Defm)::new$")
LOOKUP = re.compile(r"^ide::symbol_map::SymbolMap::(find_class|find_multiclass|find_def)$|"
                    r"^ide::index::context::IndexCtx::<'a>::resolve_id$|^ide::symbol_map::typ::Type::find_field$|"
                    r"^ide::symbol_map::record::Record::find_field$")
ADD_REF = "ide::symbol_map::SymbolMap::add_reference"
ADD_POS = "ide::symbol_map::SymbolMap::add_to_pos_to_symbol_map"


WRAPPERS = set()


def find_wrappers(prog):
    """functions of the indexer that hand on the (text, range) pair of one utils::identifier call unchanged (possibly
    inside an Option): a snippet around identifier() extracted into a helper"""
    WRAPPERS.clear()
    for p, b in prog.bodies.items():
        if b.crate != "ide.rlib" or b.parent or p in (IDENT, NAMEVAL) or not p.startswith("ide::index"):
            continue
        if "EcoString" not in b.local_ty(0) or "FileRange" not in b.local_ty(0):
            continue
        try:
            o = prov.origins(b, 0)
        except Exception:
            continue
        calls = {(x[1], x[2]) for x in o if x[0] == "call" and not x[1].endswith("::from_residual")}
        others = [x for x in o if x[0] != "call" and x[0] != "agg"]
        if len(calls) == 1 and not others and next(iter(calls))[0] in (IDENT, NAMEVAL):
            WRAPPERS.add(p)


def pair_source(o):
    """(callee, block) of the identifier() call an origin comes from, and which component"""
    if o[0] == "call" and (o[1] in (IDENT, NAMEVAL) or o[1] in WRAPPERS):
        comp = "loc" if "1" in o[3] else "name"
        return (o[1], o[2]), comp
    return None, None


def run(ck, prog):
    ck.explanation = (
        "Decided by def-use provenance on the MIR of crate ide: (R06.1) at every symbol constructor the name "
        "and the definition location are the two components of one utils::identifier(..) result (text and range "
        "of the same identifier token), except the two anonymous constructors, which must go to "
        "add_anonymous_def/defm; at every add_reference(symbol, loc) the location and the name the symbol was "
        "looked up with are the two components of one utils::identifier result; (R06.2) goto_definition, "
        "references and hover all take the symbol from SymbolMap::find_symbol_at(pos) with their own position and "
        "return that symbol's define_loc / reference_locs unmodified (no filter, sort or dedup); the position map "
        "is written only by add_to_pos_to_symbol_map, called with exactly the location stored in the symbol; "
        "(R06.3) anonymous defs/defms never reach the position map; (R06.4) utils::identifier pairs "
        "Identifier::value and Identifier::range of the same node with the current file; (R06.6) where one "
        "identifier range is registered both as the definition of a new symbol and as a reference to another (a "
        "`let` override of a field), the reference is registered last: the position map (iset insert = replace) "
        "then resolves the range to the referenced symbol, whose reference list contains it; (R06.7) in every indexer "
        "function that takes a declaring name from utils::identifier, no Indexable::index call has as receiver the "
        "identifier node or a node it was obtained from (which would register the declaring range as a use of an "
        "earlier symbol before the new symbol replaces it in the position map).")
    ck.trusted = ["iset interval map returns the stored value for a covering interval"]
    for r, t in (("R06.1", "name and location come from one identifier token"),
                 ("R06.2", "one symbol table; handlers return the symbol's own locations unmodified"),
                 ("R06.3", "anonymous symbols are not in the position map"),
                 ("R06.4", "utils::identifier: text and range of the same node, current file"),
                 ("R06.6", "a range that is both a reference and a definition resolves to the referenced symbol")):
        ck.rule(r, t)

    # ---- R06.1 constructors ----------------------------------------------------------
    find_wrappers(prog)
    n = 0
    per = {}
    for b, i, t in prog.call_sites(lambda c: bool(CTORS.match(c))):
        if b.crate != "ide.rlib" or b.path.startswith("ide::tests"):
            continue
        cb = prog.body(Body.callee(t))
        names = [cb.local_name(k) for k in range(1, cb.argc + 1)]
        if "name" not in names or "define_loc" not in names:
            continue
        n += 1
        per[b.path] = per.get(b.path, 0) + 1
        key = "ctor:%s#%d" % (b.path, per[b.path])
        no = prov.origins(b, t["args"][names.index("name")])
        lo = prov.origins(b, t["args"][names.index("define_loc")])
        # values that can only be `None` (an early `?` exit, a literal None) carry no name or range
        def nothing(o):
            return (o[0] == "call" and o[1].endswith("::from_residual")) or (o[0] == "agg" and str(o[1]).endswith("option::Option"))
        ns = {pair_source(o) for o in no if not nothing(o)}
        ls = {pair_source(o) for o in lo if not nothing(o)}
        same = len(ns) == 1 and len(ls) == 1 and next(iter(ns))[0] is not None and \
            next(iter(ns))[0] == next(iter(ls))[0] and next(iter(ns))[1] == "name" and next(iter(ls))[1] == "loc"
        if same:
            ck.ob("R06.1", key, True, "%s: name and define_loc are components of one %s result" % (
                Body.callee(t).rsplit("::", 2)[-2], next(iter(ns))[0][0].rsplit("::", 1)[-1]))
            continue
        # anonymous: name from next_anonymous_def_name, result must go to add_anonymous_*
        anon = all(o[0] == "call" and o[1].endswith("next_anonymous_def_name") for o in no)
        if anon:
            dest = t["dest"]["l"]
            sinks = set()
            for j, t2 in b.calls():
                for a in t2["args"]:
                    if op_local(a) == dest or any(x == ("call", Body.callee(t), i, ()) for x in prov.origins(b, a)):
                        sinks.add(Body.callee(t2))
            ok = bool(sinks) and all((s or "").endswith(("add_anonymous_def", "add_anonymous_defm")) for s in sinks)
            ck.ob("R06.3", "anon:%s#%d" % (b.path, per[b.path]), ok, "anonymous symbol goes to %s" % sorted(sinks),
                  msg="%s: a symbol with a generated name is registered through %s: its statement-wide range would enter "
                      "the position map and capture every identifier inside it" % (b.path, sorted(sinks)))
            continue
        ck.ob("R06.1", key, False,
              msg="%s: a symbol is created with a name from %s and a definition range from %s — they are not the text and "
                  "range of one identifier token [%s]" % (b.path, sorted(no), sorted(lo), b.where(i)))
    ck.floor("R06.1", "symbol constructor sites", n, 14)

    # ---- R06.1 references --------------------------------------------------------------
    nr = 0
    per = {}
    for b, i, t in prog.call_sites(lambda c: c == ADD_REF):
        if b.crate != "ide.rlib" or b.path.startswith("ide::symbol_map"):
            continue
        nr += 1
        per[b.path] = per.get(b.path, 0) + 1
        key = "ref:%s#%d" % (b.path, per[b.path])
        lo = prov.origins(b, t["args"][2])
        so = prov.origins(b, t["args"][1])
        ls = {pair_source(o) for o in lo}
        ok = len(ls) == 1 and next(iter(ls))[0] is not None and next(iter(ls))[1] == "loc"
        why = "reference location is the range component of %s" % sorted(lo)
        if ok:
            src = next(iter(ls))[0]
            # the symbol id comes from a lookup whose name argument is the name component of the same call
            looked = False
            for o in so:
                if o[0] == "call" and LOOKUP.match(o[1]):
                    tt = b.term(o[2])
                    for a in tt["args"][1:]:
                        for x in prov.origins(b, a):
                            s2, comp = pair_source(x)
                            if s2 == src and comp == "name":
                                looked = True
            ok = looked
            why = "symbol looked up by the name of the same identifier whose range is recorded" if looked else \
                "the symbol id (%s) was not looked up with the name of the identifier whose range is recorded" % sorted(so)
        ck.ob("R06.1", key, ok, why,
              msg="%s: add_reference pairs a symbol with a range that is not the identifier it was resolved from (%s) [%s]" % (
                  b.path, why, b.where(i)))
    ck.floor("R06.1", "add_reference sites", nr, 7)

    # ---- R06.6 one range, two roles ------------------------------------------------------
    # `let x = ..` in a record body: the identifier is a reference to the overridden field *and* the definition range
    # of the overriding field. The position map keeps the last insertion for a range, and the reference lists still
    # contain the range, so go-to-definition from it must lead to the referenced symbol: the reference goes in last.
    ctor_sites = {}
    for b, i, t in prog.call_sites(lambda c: bool(CTORS.match(c))):
        if b.crate != "ide.rlib" or b.path.startswith("ide::tests"):
            continue
        cb = prog.body(Body.callee(t))
        names = [cb.local_name(k) for k in range(1, cb.argc + 1)]
        if "define_loc" not in names:
            continue
        src = {pair_source(o)[0] for o in prov.origins(b, t["args"][names.index("define_loc")])} - {None}
        ctor_sites.setdefault(b.path, []).append((i, t, src))
    nshared = 0
    for b, i, t in prog.call_sites(lambda c: c == ADD_REF):
        if b.crate != "ide.rlib" or b.path.startswith("ide::symbol_map"):
            continue
        rsrc = {pair_source(o)[0] for o in prov.origins(b, t["args"][2])} - {None}
        for ci, ct, csrc in ctor_sites.get(b.path, []):
            if not (rsrc & csrc):
                continue
            nshared += 1
            # where the constructed symbol enters the symbol map
            regs = []
            for j, t2 in b.calls():
                c2 = Body.callee(t2) or ""
                if not re.match(r"^ide::symbol_map::SymbolMap::add_", c2) or c2 == ADD_REF:
                    continue
                for a in t2["args"][1:]:
                    if any(x[0] == "call" and x[2] == ci for x in prov.origins(b, a)):
                        regs.append(j)
            after = b.reachable(t["t"]) if t["t"] is not None else set()
            late = [j for j in regs if j in after]
            ck.ob("R06.6", "shared-range:%s" % b.path, bool(regs) and not late,
                  "the symbol defined at the shared range is registered before the reference to the other symbol",
                  msg="%s: a range is registered as a reference (add_reference [%s]) and afterwards as the definition of a new "
                      "symbol (%s [%s]); the position map keeps the last insertion, so go-to-definition from a range that "
                      "find-references of the referenced symbol returns would lead to a different symbol" % (
                          b.path, b.where(i), (Body.callee(b.term(late[0])) if late else "no registration found"),
                          b.where(late[0]) if late else b.where(ci)))
    ck.floor("R06.6", "ranges registered both as a definition and as a reference", nshared, 1)

    r067(ck, prog)

    # ---- R06.2 handlers ------------------------------------------------------------------
    FIND = "ide::symbol_map::SymbolMap::find_symbol_at"
    for fn, getter in (("ide::handlers::goto_definition::exec", "define_loc"),
                       ("ide::handlers::references::exec", "reference_locs"),
                       ("ide::handlers::hover::extract_symbol_signature", "define_loc")):
        b = prog.body(fn)
        ck.anchor(b is not None, fn + " not found")
        finds = [(i, t) for i, t in b.calls() if Body.callee(t) == FIND]
        ok = len(finds) == 1
        if ok:
            po = prov.origins(b, finds[0][1]["args"][1])
            ok = all(x[0] == "arg" for x in po)
        gets = [(i, t) for i, t in b.calls() if (Body.callee(t) or "").endswith("Symbol::<'a>::" + getter)]
        ok = ok and len(gets) >= 1
        if ok:
            for i, t in gets:
                so = prov.origins(b, t["args"][0])
                ok = ok and all(x[0] == "call" and x[1] == FIND for x in so)
        # result: the getter's value, converted only by copy/to_vec (hover pairs it with the rendered signature)
        PASS = re.compile(r"::(to_vec|clone|to_owned|copied|cloned|collect|iter|into_iter)$")

        def from_getter(op_or_local, depth=0):
            out = []
            for o in prov.origins(b, op_or_local):
                if (o[0] == "call" and o[1].endswith("::from_residual")) or (o[0] == "agg" and str(o[1]).endswith("option::Option")):
                    continue
                if o[0] == "call" and o[1].endswith("Symbol::<'a>::" + getter):
                    continue
                if o[0] == "call" and PASS.search(o[1]) and depth < 4:
                    out += from_getter(b.term(o[2])["args"][0], depth + 1)
                    continue
                out.append(o)
            return out
        if ok:
            if fn.endswith("extract_symbol_signature"):
                foreign = []
                for o in prov.origins(b, 0):
                    if o[0] == "agg" and o[1] == "tuple":
                        st = [x for x in b.blocks[o[2]]["s"] if x.get("rv", {}).get("agg") == "tuple"]
                        for x in st:
                            if len(x["rv"]["ops"]) == 2:
                                foreign += from_getter(x["rv"]["ops"][1])
            else:
                foreign = from_getter(0)
            if foreign:
                ok = False
        ro = prov.origins(b, 0)
        allowed = re.compile(r"Symbol::<'a>::%s$|to_vec$|String|format|alloc::fmt" % getter)
        mods = [Body.callee(t) for _, t in b.calls() if re.search(
            r"(dedup|sort|retain|filter|truncate|drain|remove|swap|reverse|take|skip)(_by|_by_key|_unstable|_unstable_by)?$", Body.callee(t) or "")]
        ck.ob("R06.2", "handler:%s" % fn, ok and not mods,
              "%s: find_symbol_at(own position) -> %s(), returned unmodified" % (fn.rsplit("::", 2)[-2], getter),
              msg="%s no longer returns the %s of the symbol found at the request position unmodified (%s)" % (
                  fn, getter, "modifiers: %s" % mods if mods else "lookup/getter shape changed"))
    # writers of the position map
    writers = set()
    for p, b in prog.bodies.items():
        if b.crate != "ide.rlib":
            continue
        for i, t in b.calls():
            if "iset::IntervalMap" in (Body.callee(t) or "") and re.search(r"::(insert|force_insert|remove|clear)$", Body.callee(t)):
                writers.add(p)
    ck.ob("R06.2", "posmap-writers", writers == {ADD_POS}, "the position map is written only by add_to_pos_to_symbol_map",
          msg="the position map is written outside add_to_pos_to_symbol_map: %s" % sorted(writers - {ADD_POS}))
    np_ = 0
    for b, i, t in prog.call_sites(lambda c: c == ADD_POS):
        np_ += 1
        lo = prov.origins(b, t["args"][1])
        io = prov.origins(b, t["args"][2])
        # loc is the define_loc of the symbol being allocated, or add_reference's own argument
        ok = all((x[0] == "arg" and (x[2][-1:] == ("define_loc",) or x[2] == ())) for x in lo)
        ck.ob("R06.2", "posmap-entry:%s" % b.path, ok, "keyed by the symbol's own define_loc / the recorded reference",
              msg="%s keys the position map with a location other than the one stored in the symbol (%s)" % (b.path, sorted(lo)))
    ck.floor("R06.2", "position-map insertion sites", np_, 7)
    # R06.3: add_anonymous_* never call add_to_pos_to_symbol_map nor add_record
    for fn in ("ide::symbol_map::SymbolMap::add_anonymous_def", "ide::symbol_map::SymbolMap::add_anonymous_defm"):
        b = prog.body(fn)
        ck.anchor(b is not None, fn + " not found")
        bad = [Body.callee(t) for _, t in b.calls() if (Body.callee(t) or "").startswith("ide::symbol_map::SymbolMap::")]
        ck.ob("R06.3", "anon-fn:%s" % fn, not bad, "%s only allocates" % fn.rsplit("::", 1)[-1],
              msg="%s registers the anonymous symbol through %s (position map / outline)" % (fn, bad))

    from .c05 import file_stack_rule
    ck.rule("R06.5", "the file paired with identifier ranges is the file being walked (include stack balanced)")
    file_stack_rule(ck, prog, "R06.5")

    # ---- R06.4 ---------------------------------------------------------------------------
    ib = prog.body(IDENT)
    ck.anchor(ib is not None, "utils::identifier not found")
    vals = [(i, t) for i, t in ib.calls() if Body.callee(t) == "syntax::ast::Identifier::value"]
    rngs = [(i, t) for i, t in ib.calls() if Body.callee(t) == "syntax::ast::Identifier::range"]
    ok = len(vals) == 1 and len(rngs) == 1 and \
        prov.origins(ib, vals[0][1]["args"][0]) == prov.origins(ib, rngs[0][1]["args"][0]) == {("arg", 1, ())}
    ck.ob("R06.4", "same-node", ok, "value() and range() are taken from the same Identifier argument",
          msg="utils::identifier no longer takes text and range from the same identifier node")
    ro = prov.origins(ib, 0)
    fr = [(i, t) for i, t in ib.calls() if Body.callee(t) == "ide::file_system::FileRange::new"]
    okf = len(fr) == 1 and all(x[0] == "call" and x[1].endswith("current_file_id") for x in prov.origins(ib, fr[0][1]["args"][0])) and \
        all(x[0] == "call" and x[1].endswith("Identifier::range") for x in prov.origins(ib, fr[0][1]["args"][1]))
    ck.ob("R06.4", "file-and-range", okf, "FileRange::new(current_file_id(), identifier.range())",
          msg="utils::identifier builds its location from something other than (current file, the identifier's own range)")
    # Identifier::value / range both read the node's first token
    for fn, what in (("syntax::ast::Identifier::value", "text"), ("syntax::ast::Identifier::range", "text_range")):
        b = prog.body(fn)
        ck.anchor(b is not None, fn + " not found")
        calls = [Body.callee(t) or "" for _, t in b.calls()]
        ok = any(c.endswith("first_token") for c in calls) and any(c.endswith("::" + what) for c in calls)
        ck.ob("R06.4", "token:%s" % fn, ok, "%s reads %s() of the node's first token" % (fn.rsplit("::", 1)[-1], what),
              msg="%s no longer reads the node's first token" % fn)


def _ast_chain(prog, b, op):
    """AST accessor call sites a value was obtained through: {bb: 'direct' | 'behind'}; 'direct' = reached from the
    value through transparent (std / rowan / iterator / Option) calls only, 'behind' = an ancestor further up. The chain
    follows the receiver of `syntax::ast::*` accessors and every argument of transparent calls."""
    out = {}
    todo = [(op, "direct")]
    seen = set()
    steps = 0
    while todo and steps < 400:
        steps += 1
        o, lvl = todo.pop()
        for x in prov.origins(b, o):
            if x[0] != "call" or not isinstance(x[2], int):
                continue
            key = (x[2], lvl)
            if key in seen:
                continue
            seen.add(key)
            t = b.term(x[2])
            c = Body.callee(t) or ""
            if c.startswith("syntax::ast::") or "as rowan::ast::AstNode>" in c or "as syntax::ast::" in c:
                if out.get(x[2]) != "direct":
                    out[x[2]] = lvl
                if t["args"]:
                    todo.append((t["args"][0], "behind"))
            elif c.startswith("ide::") or c.startswith("syntax::"):
                continue            # a repository function that is not an accessor: not followed
            elif re.search(r"(slice::<impl \[T\]>|Vec::<T(, A)?>|VecDeque::<T(, A)?>)::(get|first|last)$", c):
                # one element picked out of a list of nodes (`values.first()?` in the bang operators): a node of its own, so
                # that `let var = values.first()?` used both as the declaring identifier and as an indexed value is seen
                if out.get(x[2]) != "direct":
                    out[x[2]] = lvl
                if t["args"]:
                    todo.append((t["args"][0], "behind"))
            else:
                for a in t["args"]:
                    todo.append((a, lvl))
    return out


def r067(ck, prog):
    """R06.7: the identifier that becomes the definition range of a new symbol is not indexed as a use as well. In every
    indexer function that takes a name and its range from utils::identifier(&id, ..), no `Indexable::index` call of the
    same function has as receiver the identifier node itself or a node the identifier was obtained from (an ancestor in
    the chain of AST accessors): indexing that node registers references inside it - among them the identifier's own
    range - under whatever the name resolves to at that point, and the later registration of the new symbol replaces
    the range in the position map, so a location returned by find-references leads to a different symbol."""
    ck.rule("R06.7", "a declaring identifier is not also indexed as a use of an earlier symbol")
    nid = npairs = 0
    for b in list(prog.bodies.values()):
        if b.crate != "ide.rlib" or not b.path.startswith(("ide::index", "<syntax::ast::")) or "Indexable" not in b.path and not b.path.startswith("ide::index"):
            continue
        ids = [(i, t) for i, t in b.calls() if Body.callee(t) == IDENT]
        if not ids:
            continue
        idx_calls = [(i, t) for i, t in b.calls()
                     if (t["f"].get("decl") or "").endswith("index::Indexable::index") and t["args"]]
        for i, t in ids:
            nid += 1
            chain = _ast_chain(prog, b, t["args"][0])
            for j, t2 in idx_calls:
                npairs += 1
                direct = {bb for bb, lvl in _ast_chain(prog, b, t2["args"][0]).items() if lvl == "direct"}
                shared = direct & set(chain)
                ck.ob("R06.7", "%s:%s" % (b.path, (Body.callee(t2) or "").split(" as ")[0].lstrip("<")), not shared,
                      "the indexed node is not an ancestor of the declaring identifier", nontrivial=False,
                      msg="%s: the node handed to %s [%s] is the identifier passed to utils::identifier [%s] or a node that "
                          "contains it (both come from %s [%s]): its parts are registered as references, the declaring "
                          "identifier's own range among them, and the symbol declared there replaces that range in the "
                          "position map afterwards" % (
                              b.path, Body.callee(t2), b.where(j), b.where(i),
                              Body.callee(b.term(sorted(shared)[0])) if shared else "", b.where(sorted(shared)[0]) if shared else ""))
    ck.floor("R06.7", "utils::identifier call sites examined", nid, 8)
    ck.count(npairs)
