"""C14 Lexical conformance — the table clauses.

Decided: keyword table, bang-operator table (+ scannability), first-character dispatch and
punctuation table of Lexer::next_token, trivia-set agreement, directive table.
Not decided (regular-language questions about the hand-written scanner loops): string escapes,
nested block comments, maximal munch inside numbers/identifiers, digit-leading identifiers."""
import re

from .. import paths, ref
from ..facts import Body, op_const
from ..common import lexer_tables, LEXER, TOKENKIND


def may_return_kinds(prog, fn, seen=None):
    """TokenKind variants a lexer function may return (aggregates into _0, through local calls)."""
    seen = seen if seen is not None else set()
    if fn in seen:
        return set()
    seen.add(fn)
    b = prog.body(fn)
    if b is None:
        return set()
    out = set()
    for bb in b.blocks:
        if bb["cleanup"]:
            continue
        for s in bb["s"]:
            if "a" in s and s["a"]["l"] == 0 and not s["a"]["p"]:
                rv = s["rv"]
                if "agg" in rv and isinstance(rv["agg"], dict) and rv["agg"].get("adt") == TOKENKIND:
                    out.add(rv["agg"]["variant"])
        t = bb["term"]
        if t["k"] == "call" and t["dest"]["l"] == 0 and not t["dest"]["p"]:
            c = Body.callee(t)
            if c and c.endswith("::error") and "lexer" in c:
                out.add("Error")
            elif c and c.startswith("syntax::"):
                out |= may_return_kinds(prog, c, seen)
    return out


def lex_first(prog, body, spelling):
    """Walk Lexer::next_token for a concrete spelling: first char fixed, Scanner::eat_if(const char)
    guards answer according to the following characters. Returns (result descriptor, leftover)."""
    results = []
    for p in paths.enum_paths(body, prog, limit=60000):
        if p.end != "return":
            continue
        rest = list(spelling[1:])
        ch = spelling[0] if spelling else None
        ok = True
        for e in p.events:
            if e[0] != "branch":
                continue
            cond, taken = e[2], e[3]
            if cond.kind == "discr" and cond.data[1].startswith("std::option::Option<char"):
                want = 1 if ch is not None else 0
                if isinstance(taken, tuple):
                    ok = want not in taken[1]
                else:
                    ok = taken == want
            elif cond.kind == "call":
                term = cond.data[1]
                callee = term["f"].get("fn") or ""
                truth = paths.branch_truth(taken)
                if callee.startswith("unscanny::Scanner") and callee.endswith("::eat_if"):
                    c = op_const(term["args"][1])
                    if c is None or "int" not in c:
                        return None
                    x = chr(c["int"])
                    hit = bool(rest) and rest[0] == x
                    if hit != truth:
                        ok = False
                    elif hit:
                        rest.pop(0)
                else:
                    if ch is None:
                        ok = False
                    else:
                        v = paths.eval_char_pred(prog, callee, ch)
                        if v is None:
                            return None
                        ok = (v == truth)
            elif cond.kind in ("place", "local", "arg"):
                if ch is None:
                    ok = False
                elif isinstance(taken, tuple):
                    ok = ord(ch) not in taken[1]
                else:
                    ok = taken == ord(ch)
            else:
                return None
            if not ok:
                break
        if ok:
            results.append((paths.describe_result(prog, p.ret), "".join(rest)))
    if len(results) != 1:
        return None
    return results[0]


def run(ck, prog):
    ck.explanation = (
        "Table clauses of lexical conformance, decided exhaustively on tables read from the MIR of "
        "the current tree: (R14.1) the keyword decision tree of Lexer::identifier equals the reference "
        "reserved-word table; (R14.2) every reference bang/cond operator is a literal of "
        "Lexer::bangoperator with the right kind and is accepted by the scanner's character predicate; "
        "(R14.3) Lexer::next_token's first-character dispatch, walked symbolically for every reference "
        "punctuation spelling and one representative of every token class, yields the reference kind "
        "(this also shows no earlier arm shadows a later one for those inputs); (R14.4) the trivia "
        "predicates on TokenKind and SyntaxKind agree under From<TokenKind>; (R14.5) directive table. "
        "Scanner loops: (R14.6) every integer parse reachable from Lexer::number targets an unsigned 64-bit integer "
        "unless it runs only for lexemes starting with `-`; (R14.7) the transition table of Lexer::string, read off its "
        "MIR by evaluating one loop iteration for every (flag state, character class) pair, has the transitions the "
        "reference requires for valid literals (escape of exactly the next character, the five escapes, closing quote); "
        "(R14.8) Lexer::block_comment keeps a nesting depth whose transitions for every (depth 1..3, character, next "
        "character) are the reference ones and the token ends exactly at depth 0; (R14.9) the scanner entered on a digit "
        "can return Id. Not decided: code fragments, variable names, line comments, the exact regular language of "
        "numbers, maximal munch between token classes.")
    ck.trusted = ["rustc MIR construction and constant evaluation", "unscanny::Scanner API contract",
                  "reference tables in tdq/ref.py transcribed from the TableGen Programmer's Reference"]
    ck.rule("R14.1", "lexer keyword table == reference reserved words, each with its kind; nothing else is a keyword")
    ck.rule("R14.2", "every reference operator spelling is in the lexer's operator table with its kind and is scannable")
    ck.rule("R14.3", "next_token dispatch: reference punctuation spellings and token-class representatives reach the reference kind")
    ck.rule("R14.4", "TokenKind::is_trivia and SyntaxKind::is_trivia agree under From<TokenKind>")
    ck.rule("R14.5", "preprocessor directive table == reference directives")
    ck.rule("R14.10", "identifier and variable-name character classes equal the reference classes")
    ck.rule("R14.9", "digit-leading identifiers: the scanner entered on a digit can produce an identifier")
    ck.rule("R14.8", "block comment scanner keeps a nesting depth: `/*` opens, `*/` closes, the token ends at depth 0")
    ck.rule("R14.7", "string literal scanner: transitions required for valid literals (escapes, closing quote)")
    ck.rule("R14.6", "integer lexemes are validated with a full-width unsigned parse (signed only behind a leading '-')")

    lx = lexer_tables(ck, prog)
    kw = lx["keywords"]
    for w, k in sorted(ref.KEYWORDS.items()):
        ck.ob("R14.1", "kw:%s" % w, kw.get(w) == k, "'%s' -> %s" % (w, kw.get(w)),
              msg="reserved word '%s' lexes as %s, reference kind %s" % (w, kw.get(w, "Id"), k))
    for w, k in sorted(kw.items()):
        if w not in ref.KEYWORDS:
            ck.ob("R14.1", "extra-kw:%s" % w, False,
                  msg="'%s' is a plain identifier in TableGen but the lexer returns %s" % (w, k))
    ck.ob("R14.1", "default", lx["ident_default"] == [("variant", TOKENKIND, "Id")],
          "non-keywords lex as Id", msg="identifier fallback is %r, expected Id" % (lx["ident_default"],))
    ipred = lx["ident_pred_fn"]
    good = len(ipred) == 1 and all(paths.eval_char_pred(prog, ipred[0], c) is True
                                   for c in "azAZ09_") and \
        all(paths.eval_char_pred(prog, ipred[0], c) is False for c in " -.+<>;:\"#!$é")
    ck.ob("R14.1", "ident-continue", good, "identifier continuation = [A-Za-z0-9_] (%s)" % ipred,
          msg="identifier continuation predicate %r does not accept exactly [A-Za-z0-9_] on the probe set" % (ipred,))
    ck.floor("R14.1", "keyword rows", len(kw), 25)

    ops = lx["bangops"]
    pred = lx["bang_pred"]
    for w, k in sorted(ref.BANG_OPERATORS.items()):
        ok = ops.get(w) == k and all(pred(c) for c in w)
        ck.ob("R14.2", "op:%s" % w, ok, "'!%s' -> %s" % (w, ops.get(w)),
              msg="operator '!%s' lexes as %s (reference kind %s)%s" % (
                  w, ops.get(w, "Error"), k, "" if all(pred(c) for c in w) else "; scanner predicate rejects it"))
    for w, k in sorted(ops.items()):
        if w not in ref.BANG_OPERATORS:
            if w in ref.UNSURE_BANG:
                ck.info("lexer accepts newer operator !%s" % w)
            else:
                ck.info("lexer accepts '!%s' (%s), which the reference table does not list" % (w, k))
        sc = all(pred(c) for c in w)
        ck.ob("R14.2", "scannable:%s" % w, sc, "every character of '%s' passes the operator scanner" % w,
              msg="lexer table entry '!%s' can never match: the scanner stops at a character it contains" % w)
    # kind injectivity: two spellings must not share a kind
    inv = {}
    for w, k in ops.items():
        inv.setdefault(k, []).append(w)
    for k, ws in inv.items():
        ck.ob("R14.2", "unique:%s" % k, len(ws) == 1, "%s has one spelling" % k,
              msg="kind %s is produced for several spellings %s" % (k, ws), nontrivial=False)
    ck.floor("R14.2", "operator rows", len(ops), 52)

    # R14.3 -----------------------------------------------------------------------
    nb = prog.body(LEXER + "next_token")
    ck.anchor(nb is not None, "Lexer::next_token not found")
    n = 0
    for sp, k in sorted(ref.PUNCT.items()):
        if sp in ("+", "-", "#"):
            continue    # dispatched to a sub-scanner; covered by the class rows below
        r = lex_first(prog, nb, sp)
        n += 1
        ok = r is not None and r[0] == ("variant", TOKENKIND, k) and r[1] == ""
        ck.ob("R14.3", "punct:%s" % sp, ok, "'%s' -> %s" % (sp, r),
              msg="punctuation '%s' reaches %s, reference kind %s" % (sp, r, k))
    classes = [("a", {"Id"}), ("_", {"Id"}), ("Z", {"Id"}), ("7", {"IntVal"}), ("0", {"IntVal", "BinaryIntVal"}),
               ("+", {"Plus", "IntVal"}), ("-", {"Minus", "IntVal"}), ('"', {"StrVal"}), ("$", {"VarName"}),
               ("[{", {"CodeFragment"}), ("!", set(ref.BANG_OPERATORS.values())),
               ("#", {"Paste"} | set(ref.PREPROCESSOR.values())), ("//", {"LineComment"}),
               ("/*", {"BlockComment"}), (" ", {"Whitespace"}), ("\t", {"Whitespace"}),
               ("\n", {"Whitespace"}), ("\r", {"Whitespace"})]
    for sp, kinds in classes:
        r = lex_first(prog, nb, sp)
        n += 1
        ok = False
        got = None
        if r is not None and r[1] == "":
            res = r[0]
            if res[0] == "variant":
                got = {res[2]}
            elif res[0] == "call":
                got = may_return_kinds(prog, res[1])
            ok = got is not None and kinds <= got
        ck.ob("R14.3", "class:%r" % sp, ok, "%r dispatches to a scanner producing %s" % (sp, sorted(kinds)),
              msg="input starting with %r is dispatched to %s which cannot produce %s" % (
                  sp, r, sorted(kinds - (got or set()))))
    r = lex_first(prog, nb, "")
    ck.ob("R14.3", "eof", r is not None and r[0] == ("variant", TOKENKIND, "Eof"), "end of input -> Eof",
          msg="end of input yields %s" % (r,))
    for sp in ("..", "@", "é", "/"):
        r = lex_first(prog, nb, sp)
        ok = r is not None and r[0][0] == "call" and (r[0][1] or "").endswith("::error")
        ck.ob("R14.3", "invalid:%r" % sp, ok, "%r is a lexical error" % sp,
              msg="invalid input %r is not reported as a lexical error (%s)" % (sp, r))
    ck.count(n)

    # R14.4 -----------------------------------------------------------------------
    tb = prog.body("syntax::token_kind::TokenKind::is_trivia")
    sb = prog.body("syntax::syntax_kind::SyntaxKind::is_trivia")
    fb = prog.body("syntax::syntax_kind::<impl std::convert::From<syntax::token_kind::TokenKind> for rowan::SyntaxKind>::from")
    ck.anchor(tb and sb and fb, "is_trivia / From<TokenKind> not found")
    SK = "syntax::syntax_kind::SyntaxKind"
    tt = paths.variant_table(tb, prog, TOKENKIND)
    st = paths.variant_table(sb, prog, SK)
    ft = paths.variant_table(fb, prog, TOKENKIND)
    conv = {}
    for v, res in ft.items():
        kinds = set()
        for p in res:
            pass
        conv[v] = res
    # From<TokenKind> builds `kind` then calls kind.into(): recover the SyntaxKind aggregate per arm
    conv = token_to_syntax(prog, fb)
    ck.anchor(len(conv) >= 100, "From<TokenKind> table unreadable (%d rows)" % len(conv))
    # kinds the preprocessor layer consumes never reach the parser/tree: the non-default arms of
    # PreProcessor::next_token's match (derived, not frozen)
    pb = prog.body("syntax::preprocessor::PreProcessor::<T>::next_token")
    ck.anchor(pb is not None, "PreProcessor::next_token not found")
    consumed = set()
    tkv = {v["discr"]: v["name"] for v in prog.adts[TOKENKIND]["variants"]}
    for i, bb in enumerate(pb.blocks):
        t = bb["term"]
        if t["k"] == "switch" and paths.switch_cond(pb, prog, i).kind == "discr":
            consumed |= {tkv[a[0]] for a in t["arms"]}
    ck.extra["kinds_consumed_by_preprocessor"] = sorted(consumed)
    for v in sorted(conv):
        if v in consumed:
            continue
        a = tt.get(v) == {("const", "true")}
        b = st.get(conv[v]) == {("const", "true")}
        ck.ob("R14.4", "trivia:%s" % v, a == b, "%s trivia=%s, %s trivia=%s" % (v, a, conv[v], b),
              msg="TokenKind::%s is_trivia=%s but SyntaxKind::%s is_trivia=%s" % (v, a, conv[v], b),
              nontrivial=a or b)
    ck.extra["token_to_syntax_rows"] = len(conv)

    # R14.6 -----------------------------------------------------------------------
    integer_width(ck, prog)
    # R14.10 ----------------------------------------------------------------------
    # identifier / variable-name character classes: the predicates the scanners pass to eat_if / eat_while are
    # evaluated on every ASCII character and on representatives of non-ASCII letters and digits
    probes = [chr(c) for c in range(32, 127)] + ["\u00e9", "\u03b1", "\u0661", "\u4e2d"]
    want = {
        "is_identifier_start": lambda c: c.isascii() and (c.isalpha() or c == "_"),
        "is_identifier_continue": lambda c: c.isascii() and (c.isalnum() or c == "_"),
    }
    for name, ref_pred in want.items():
        fn = None
        for pth in prog.bodies:
            if pth.startswith("syntax::lexer") and pth.endswith("::" + name):
                fn = pth
        ck.anchor(fn is not None, "lexer predicate %s not found" % name)
        bad = []
        for ch in probes:
            got = paths.eval_char_pred(prog, fn, ch)
            ck.anchor(got is not None, "lexer predicate %s could not be evaluated on %r" % (name, ch))
            if got != ref_pred(ch):
                bad.append(ch)
        ck.ob("R14.10", "class:%s" % name, not bad, "%s agrees with the reference class on %d probe characters" % (name, len(probes)),
              msg="lexer predicate %s differs from the TableGen identifier character class on %s" % (name, bad[:12]))
    for meth, preds in (("identifier", ["is_identifier_continue"]), ("var_name", ["is_identifier_start", "is_identifier_continue"])):
        mb = find_method(prog, meth)
        ck.anchor(mb is not None, "Lexer::%s not found" % meth)
        used = set()
        for i, t in mb.calls():
            for ga in (t["f"].get("args") or []):
                ty = ga.get("ty") or ""
                for pn in want:
                    if pn in ty:
                        used.add(pn)
        ck.ob("R14.10", "uses:%s" % meth, set(preds) <= used, "Lexer::%s scans with %s" % (meth, sorted(used)),
              msg="Lexer::%s no longer scans with the identifier predicates %s (uses %s)" % (meth, preds, sorted(used)))

    # R14.9 -----------------------------------------------------------------------
    nb = find_method(prog, "number")
    ck.anchor(nb is not None, "Lexer::number not found")
    kinds = may_return_kinds(prog, nb.path)
    ck.ob("R14.9", "digit-leading-identifier", "Id" in kinds,
          "the scanner entered on a digit can produce Id (it returns %s)" % sorted(kinds)[:8],
          msg="Lexer::number (the scanner entered on a digit) can only return %s: a digit-leading identifier such as `0foo` or "
              "`2x4` is split into an integer and an identifier" % sorted(kinds))
    # R14.7 -----------------------------------------------------------------------
    string_scanner(ck, prog)
    # R14.8 -----------------------------------------------------------------------
    comment_scanner(ck, prog)

    # R14.5 -----------------------------------------------------------------------
    dirs = lx["directives"]
    for w, k in ref.PREPROCESSOR.items():
        ck.ob("R14.5", "directive:%s" % w, dirs.get(w) == k, "#%s -> %s" % (w, dirs.get(w)),
              msg="directive '#%s' lexes as %s, expected %s" % (w, dirs.get(w), k))
    for w in dirs:
        ck.ob("R14.5", "extra-directive:%s" % w, w in ref.PREPROCESSOR, nontrivial=False,
              msg="'#%s' is not a TableGen preprocessor directive" % w)


def integer_width(ck, prog):
    """R14.6: the parse that validates an integer lexeme accepts the whole 64-bit range: every radix/decimal parse
    reachable from Lexer::number targets an unsigned 64-bit (or wider) integer, except a parse that runs only for
    lexemes starting with `-`."""
    from .. import cfg
    nb = None
    for p, b in prog.bodies.items():
        if p.endswith("lexer::Lexer::<'a>::number") or p.endswith("lexer::Lexer::number"):
            nb = b
    ck.anchor(nb is not None, "Lexer::number not found")
    todo = [nb]
    seen = set()
    sites = 0
    while todo:
        b = todo.pop()
        if b.path in seen:
            continue
        seen.add(b.path)
        dom = None
        for i, t in b.calls():
            c = Body.callee(t) or ""
            cb = prog.body(c)
            if cb is not None and cb.crate == b.crate and cb.path not in seen and "lexer" in cb.path:
                todo.append(cb)
            m = re.match(r"core::num::<impl (\w+)>::from_str_radix$", c)
            ty = None
            if m:
                ty = m.group(1)
            elif c == "core::str::<impl str>::parse":
                ga = t["f"].get("args") or []
                ty = ga[0].get("ty") if ga else None
                if ty is not None and not re.match(r"[iu](8|16|32|64|128|size)$", ty):
                    ty = None
            if ty is None:
                continue
            sites += 1
            ok = ty in ("u64", "u128")
            why = "parses as %s" % ty
            if not ok and ty in ("i64", "i128"):
                # allowed only under a dominating `starts_with('-')` == true
                if dom is None:
                    dom = cfg.dominators(b)
                for j, tt in b.calls():
                    cc = Body.callee(tt) or ""
                    if cc.endswith("str>::starts_with") and any((a.get("const") or {}).get("int") == 45 for a in tt["args"]):
                        sw = b.term(tt["t"])
                        if sw["k"] == "switch":
                            false_t = [tg for v, tg in sw["arms"] if v == 0]
                            true_t = sw["else"] if false_t else None
                            if true_t is not None and true_t in dom[i] and true_t not in false_t:
                                ok = True
                                why = "parses as %s only for lexemes starting with '-'" % ty
            ck.ob("R14.6", "int-parse:%s:%d" % (b.path.rsplit("::", 1)[-1], sites), ok, why,
                  msg="%s validates an integer lexeme by parsing it as %s: hexadecimal/binary/decimal literals with bit 63 set "
                      "(0x8000000000000000 ..) are reported as lexical errors [%s]" % (b.path, ty, b.where(i)))
    ck.floor("R14.6", "integer parse sites reachable from Lexer::number", sites, 1)


def find_method(prog, name):
    for p, b in prog.bodies.items():
        if p.startswith("syntax::lexer::Lexer") and p.endswith("::" + name) and not b.parent:
            return b
    return None


def string_scanner(ck, prog):
    """R14.7: transition table of Lexer::string, read off its MIR by evaluating one loop iteration for every (state of
    the loop's flag locals, character class) pair, compared with the transitions the TableGen reference requires for
    *valid* literals: a backslash escapes exactly the next character (one of \\ \' \" \t \n), an unescaped quote ends the
    literal as StrVal, every other character continues. Transitions of invalid literals are not constrained."""
    from .. import mirexec
    b = find_method(prog, "string")
    ck.anchor(b is not None, "Lexer::string not found")
    eat_blocks = [i for i, t in b.calls() if (Body.callee(t) or "").endswith("Scanner::<'a>::eat")]
    ck.anchor(len(eat_blocks) == 1, "Lexer::string no longer reads one character per loop iteration (Scanner::eat sites: %d)" % len(eat_blocks))
    head = eat_blocks[0]

    def oracle_for(ch):
        fed = []

        def oracle(fr, callee, args, t):
            if callee.endswith("Scanner::<'a>::eat"):
                if fed:
                    raise mirexec.Unsupported("second character read in one iteration")
                fed.append(1)
                return ("none",) if ch is None else ("some", ("int", ord(ch)))
            if callee.endswith("Lexer::<'a>::error"):
                return ("variant", "Error", -1, [])
            raise mirexec.Unsupported("call to %s" % callee)
        return oracle

    # state locals: locals assigned before the loop head and again inside the loop
    def run_from(locals_in, ch):
        fr = mirexec.Frame(b, oracle_for(ch))
        fr.locals = dict(locals_in)
        fr.locals[1] = ("self", ())
        out = fr.run(head, stop_blocks=(head,))
        return out, fr.locals

    # initial state: run from the entry to the loop head
    fr0 = mirexec.Frame(b, oracle_for(None))
    fr0.locals[1] = ("self", ())
    r0 = fr0.run(0, stop_blocks=(head,)) if head != 0 else ("at", head)
    ck.anchor(r0[0] == "at", "Lexer::string does not reach its character loop")
    init = {k: v for k, v in fr0.locals.items() if v is not None and v[0] == "int"}
    # explore the reachable states
    classes = [("backslash", "\\"), ("quote", '"'), ("apostrophe", "'"), ("t", "t"), ("n", "n"), ("other", "a"),
               ("CR", "\r"), ("LF", "\n"), ("EOF", None)]
    table = {}
    states = [tuple(sorted(init.items()))]
    seen = set(states)
    while states:
        st = states.pop()
        for cname, ch in classes:
            try:
                out, loc = run_from(dict(st), ch)
            except mirexec.Unsupported as e:
                ck.anchor(False, "Lexer::string could not be evaluated (%s)" % e)
            if out[0] == "at":
                st2 = tuple(sorted((k, loc[k]) for k, _ in st))
                table[(st, cname)] = ("continue", st2)
                if st2 not in seen and len(seen) < 16:
                    seen.add(st2)
                    states.append(st2)
            else:
                v = out[1]
                table[(st, cname)] = ("end", v[1] if v and v[0] == "variant" else str(v))
    ck.count(len(table))
    s0 = tuple(sorted(init.items()))
    # reference obligations for valid literals
    def step(st, cname):
        return table.get((st, cname))
    # normal state: other chars stay, quote ends with StrVal
    for cname in ("other", "t", "n", "apostrophe"):
        r = step(s0, cname)
        ck.ob("R14.7", "normal:%s" % cname, r == ("continue", s0), "outside an escape `%s` continues in the same state" % cname,
              msg="Lexer::string: an ordinary character (%s) outside an escape does not leave the scanner in its initial state: %s" % (cname, r))
    r = step(s0, "quote")
    ck.ob("R14.7", "normal:quote", r == ("end", "StrVal"), "an unescaped quote ends the literal as StrVal",
          msg="Lexer::string: an unescaped `\"` does not end the literal as StrVal: %s" % (r,))
    r = step(s0, "backslash")
    ok = r is not None and r[0] == "continue" and r[1] != s0
    ck.ob("R14.7", "normal:backslash", ok, "a backslash enters the escape state",
          msg="Lexer::string: a backslash does not start an escape: %s" % (r,))
    if ok:
        esc = r[1]
        for cname in ("backslash", "quote", "apostrophe", "t", "n"):
            r2 = step(esc, cname)
            ck.ob("R14.7", "escape:%s" % cname, r2 == ("continue", s0),
                  "the escape \\%s is consumed and the scanner is back in its initial state" % cname,
                  msg="Lexer::string: after a backslash, `%s` (a valid escape) does not return the scanner to its initial state "
                      "(%s): %s" % (cname, r2, {"backslash": 'a literal ending in an escaped backslash, "a\\\\", is not terminated by its closing quote',
                                                "quote": "an escaped quote ends the literal"}.get(cname, "the escape is rejected or mis-scanned")))
    ck.floor("R14.7", "string scanner transitions evaluated", len(table), 18)


def comment_scanner(ck, prog):
    """R14.8: block comments nest. Lexer::block_comment must keep a nesting depth: its per-iteration transition table
    (state = the integer locals of the loop, input = the character read and the character after it) is read off the
    MIR and compared with: `*` `/` closes one level, `/` `*` opens one, anything else keeps the depth; the comment token
    ends exactly when the depth returns to zero. A scanner that searches for the first terminator cannot nest."""
    from .. import mirexec
    b = find_method(prog, "block_comment")
    ck.anchor(b is not None, "Lexer::block_comment not found")
    calls = [(i, Body.callee(t) or "", t) for i, t in b.calls()]
    until = [c for _, c, _ in calls if c.endswith("::eat_until")]
    eats = [i for i, c, _ in calls if c.endswith("Scanner::<'a>::eat")]
    if until and not eats:
        ck.ob("R14.8", "nesting", False,
              msg="Lexer::block_comment skips to the first terminator (Scanner::eat_until) and keeps no nesting depth: in "
                  "`/* a /* b */ c */` the comment ends at the first `*/` and ` c */` is lexed as tokens")
        return
    ck.anchor(len(eats) == 1, "Lexer::block_comment: cannot find its one-character-per-iteration loop")
    head = eats[0]

    def run_iter(locals_in, c1, c2):
        consumed = [0]

        def oracle(fr, callee, args, t):
            if callee.endswith("Scanner::<'a>::eat"):
                if consumed[0]:
                    raise mirexec.Unsupported("second eat() in one iteration")
                consumed[0] = 1
                return ("none",) if c1 is None else ("some", ("int", ord(c1)))
            if callee.endswith("::eat_if"):
                pat = args[1] if len(args) > 1 else None
                if pat is None or pat[0] != "int" or consumed[0] != 1:
                    raise mirexec.Unsupported("eat_if with a non-character pattern")
                hit = c2 is not None and ord(c2) == pat[1]
                if hit:
                    consumed[0] = 2
                return ("int", 1 if hit else 0)
            raise mirexec.Unsupported("call to %s" % callee)
        fr = mirexec.Frame(b, oracle)
        fr.locals = dict(locals_in)
        fr.locals[1] = ("self", ())
        out = fr.run(head, stop_blocks=(head,))
        return out, fr.locals, consumed[0]

    fr0 = mirexec.Frame(b, lambda *a: (_ for _ in ()).throw(mirexec.Unsupported("call before the loop")))
    fr0.locals[1] = ("self", ())
    try:
        r0 = fr0.run(0, stop_blocks=(head,))
    except mirexec.Unsupported as e:
        ck.anchor(False, "Lexer::block_comment could not be evaluated (%s)" % e)
    ck.anchor(r0[0] == "at", "Lexer::block_comment does not reach its loop")
    named = {i for i, l in enumerate(b.raw.get("locals", [])) if l.get("n") and l.get("n") != "self"}
    ints = {k: v for k, v in fr0.locals.items() if v is not None and v[0] == "int" and k in named}
    ck.anchor(len(ints) == 1, "Lexer::block_comment: expected exactly one integer state variable (the nesting depth), found %d" % len(ints))
    dl = list(ints)[0]
    d0 = ints[dl][1]
    ck.ob("R14.8", "initial-depth", d0 == 1, "the depth starts at 1 after the opening `/*`",
          msg="Lexer::block_comment starts with nesting depth %d" % d0)
    n = 0
    for d in (1, 2, 3):
        for c1 in ("*", "/", "a", None):
            for c2 in ("*", "/", "a", None):
                try:
                    out, loc, used = run_iter({dl: ("int", d)}, c1, c2)
                except mirexec.Unsupported as e:
                    ck.anchor(False, "Lexer::block_comment could not be evaluated (%s)" % e)
                n += 1
                if c1 is None:
                    ok = out[0] == "return"
                    want = "the scanner stops at the end of input"
                else:
                    if (c1, c2) == ("*", "/"):
                        nd, nu = d - 1, 2
                    elif (c1, c2) == ("/", "*"):
                        nd, nu = d + 1, 2
                    else:
                        nd, nu = d, 1
                    if nd == 0:
                        ok = out[0] == "return" and used == nu and out[1] and out[1][0] == "variant" and out[1][1] == "BlockComment"
                        want = "the comment ends here as BlockComment after %d characters" % nu
                    else:
                        ok = out[0] == "at" and used == nu and loc.get(dl) == ("int", nd)
                        want = "depth %d -> %d, %d characters consumed" % (d, nd, nu)
                ck.ob("R14.8", "step:d%d:%s%s" % (d, c1 or "EOF", c2 or "EOF"), ok, want,
                      msg="Lexer::block_comment at nesting depth %d reading `%s` followed by `%s`: expected %s, the scanner does %s/%s "
                          "consuming %d" % (d, c1, c2, want, out[0], loc.get(dl), used))
    ck.count(n)
    ck.floor("R14.8", "comment scanner transitions evaluated", n, 48)


def token_to_syntax(prog, fb):
    """TokenKind variant -> SyntaxKind variant from the match in From<TokenKind> for rowan::SyntaxKind."""
    variants = {v["discr"]: v["name"] for v in prog.adts[TOKENKIND]["variants"]}
    out = {}
    for p in paths.enum_paths(fb, prog):
        if p.end != "return":
            continue
        chosen = None
        for e in p.events:
            if e[0] == "branch" and e[2].kind == "discr" and e[2].data[1] == TOKENKIND and not isinstance(e[3], tuple):
                chosen = e[3]
        sk = None
        for e in p.events:
            if e[0] == "assign":
                rv = e[2]["rv"]
                if "agg" in rv and isinstance(rv["agg"], dict) and rv["agg"].get("adt") == "syntax::syntax_kind::SyntaxKind":
                    sk = rv["agg"]["variant"]
        if chosen is not None and sk is not None:
            out[variants[chosen]] = sk
    return out
