"""C14 Lexical conformance — the table clauses.

Decided: keyword table, bang-operator table (+ scannability), first-character dispatch and
punctuation table of Lexer::next_token, trivia-set agreement, directive table.
Not decided (regular-language questions about the hand-written scanner loops): string escapes,
nested block comments, maximal munch inside numbers/identifiers, digit-leading identifiers."""
import re

from .. import paths, ref
from ..facts import Body, op_const, op_local
from ..common import lexer_tables, LEXER, TOKENKIND


def may_return_kinds(prog, fn, seen=None):
    """TokenKind variants a lexer function may return (aggregates into _0, through local calls)."""
    seen = seen if seen is not None else set()
    if fn in seen:
        return set()
    seen.add(fn)
    b = prog.body(fn)
    if b is None:
        return set()
    out = set()
    for bb in b.blocks:
        if bb["cleanup"]:
            continue
        for s in bb["s"]:
            if "a" in s and s["a"]["l"] == 0 and not s["a"]["p"]:
                rv = s["rv"]
                if "agg" in rv and isinstance(rv["agg"], dict) and rv["agg"].get("adt") == TOKENKIND:
                    out.add(rv["agg"]["variant"])
                elif isinstance(rv, dict) and "use" in rv and op_local(rv["use"]) is not None or \
                        (isinstance(rv, dict) and isinstance(rv.get("use"), dict) and (rv["use"].get("copy") or rv["use"].get("move") or {}).get("p")):
                    # the result is a value built elsewhere in the function (a table whose helper was inlined):
                    # every kind the function constructs may be returned
                    out |= kinds_mentioned(prog, b)
        t = bb["term"]
        if t["k"] == "call" and t["dest"]["l"] == 0 and not t["dest"]["p"]:
            c = Body.callee(t)
            if c and c.endswith("::error") and "lexer" in c:
                out.add("Error")
            elif c and c.startswith("syntax::"):
                out |= may_return_kinds(prog, c, seen)
            elif c and re.search(r"option::Option::<T>::(unwrap_or|unwrap_or_else|unwrap_or_default|map_or)$", c):
                # `helper(..).unwrap_or(TokenKind::X)`: the constant fallback
                for a in t["args"]:
                    k = op_const(a)
                    l = op_local(a) if k is None else None
                    if l is not None:
                        d = b.single_def(l)
                        if d and d[0] == "stmt" and isinstance(d[3], dict):
                            k = op_const(d[3].get("use")) if isinstance(d[3].get("use"), dict) else None
                            if k is None and isinstance(d[3].get("agg"), dict) and d[3]["agg"].get("adt") == TOKENKIND:
                                out.add(d[3]["agg"]["variant"])
                    if k and k.get("ty", "").endswith(TOKENKIND):
                        out.add(k["val"].rsplit("::", 1)[-1])
        # a table moved into a helper returning Option<TokenKind>: whatever it can put into Some(..) may be returned
        if t["k"] == "call":
            c2 = Body.callee(t) or ""
            hb = prog.body(c2)
            if hb is not None and c2.startswith("syntax::") and "Option<" + TOKENKIND in hb.local_ty(0):
                out |= kinds_mentioned(prog, hb)
    return out


def kinds_mentioned(prog, b):
    out = set()
    for bb in b.blocks:
        if bb["cleanup"]:
            continue
        for s in bb["s"]:
            rv = s.get("rv") or {}
            if "agg" in rv and isinstance(rv["agg"], dict) and rv["agg"].get("adt") == TOKENKIND:
                out.add(rv["agg"]["variant"])
            for key in ("use",):
                c = op_const(rv.get(key)) if isinstance(rv.get(key), dict) else None
                if c and c.get("ty", "").endswith(TOKENKIND):
                    out.add(c["val"].rsplit("::", 1)[-1])
            for o in rv.get("ops", []) if isinstance(rv.get("ops"), list) else []:
                c = op_const(o)
                if c and c.get("ty", "").endswith(TOKENKIND):
                    out.add(c["val"].rsplit("::", 1)[-1])
    return out


def lex_first(prog, body, spelling):
    """Walk Lexer::next_token for a concrete spelling: first char fixed, Scanner::eat_if(const char)
    guards answer according to the following characters. Returns (result descriptor, leftover)."""
    results = []
    for p in paths.enum_paths(body, prog, limit=60000):
        if p.end != "return":
            continue
        rest = list(spelling[1:])
        ch = spelling[0] if spelling else None
        ok = True
        for e in p.events:
            if e[0] != "branch":
                continue
            cond, taken = e[2], e[3]
            if cond.kind == "discr" and cond.data[1].startswith("std::option::Option<char"):
                want = 1 if ch is not None else 0
                if isinstance(taken, tuple):
                    ok = want not in taken[1]
                else:
                    ok = taken == want
            elif cond.kind == "call":
                term = cond.data[1]
                callee = term["f"].get("fn") or ""
                truth = paths.branch_truth(taken)
                if callee.startswith("unscanny::Scanner") and callee.endswith("::eat_if"):
                    c = op_const(term["args"][1])
                    if c is None or "int" not in c:
                        return None
                    x = chr(c["int"])
                    hit = bool(rest) and rest[0] == x
                    if hit != truth:
                        ok = False
                    elif hit:
                        rest.pop(0)
                else:
                    if ch is None:
                        ok = False
                    else:
                        v = paths.eval_char_pred(prog, callee, ch)
                        if v is None:
                            return None
                        ok = (v == truth)
            elif cond.kind in ("place", "local", "arg"):
                if ch is None:
                    ok = False
                elif isinstance(taken, tuple):
                    ok = ord(ch) not in taken[1]
                else:
                    ok = taken == ord(ch)
            else:
                return None
            if not ok:
                break
        if ok:
            results.append((paths.describe_result(prog, p.ret), "".join(rest)))
    if len(results) != 1:
        return None
    return results[0]


def run(ck, prog):
    ck.explanation = (
        "Table clauses of lexical conformance, decided exhaustively on tables read from the MIR of "
        "the current tree: (R14.1) the keyword decision tree of Lexer::identifier equals the reference "
        "reserved-word table; (R14.2) every reference bang/cond operator is a literal of "
        "Lexer::bangoperator with the right kind and is accepted by the scanner's character predicate; "
        "(R14.3) Lexer::next_token's first-character dispatch, walked symbolically for every reference "
        "punctuation spelling and one representative of every token class, yields the reference kind "
        "(this also shows no earlier arm shadows a later one for those inputs); (R14.4) the trivia "
        "predicates on TokenKind and SyntaxKind agree under From<TokenKind>; (R14.5) directive table. "
        "Scanner loops: (R14.6) every integer parse reachable from Lexer::number targets an unsigned 64-bit integer "
        "unless it runs only for lexemes starting with `-`; (R14.7) Lexer::string, evaluated from its MIR (scanner API "
        "modelled) on every character-class string of up to 5 characters, returns StrVal after exactly the characters of "
        "every valid literal (a backslash escapes exactly the next character, one of the five reference escapes); "
        "(R14.8) Lexer::block_comment, evaluated the same way on every string of up to 8 characters over {/, *, other}, "
        "ends every terminated nested comment exactly where the reference does; (R14.9) the scanner entered on a digit "
        "can return Id; (R14.12) Lexer::line_comment, Lexer::var_name and Lexer::code_fragment, evaluated the same way on "
        "every short string over an alphabet with their delimiters, CR/LF and non-ASCII letters and digits, end where the "
        "reference says and return its kind (an error exactly when there is no variable name / no closing `}]`). Not decided: the "
        "exact regular language of numbers beyond R14.11's bound, maximal munch between token classes.")
    ck.trusted = ["rustc MIR construction and constant evaluation", "unscanny::Scanner API contract",
                  "reference tables in tdq/ref.py transcribed from the TableGen Programmer's Reference"]
    ck.rule("R14.1", "lexer keyword table == reference reserved words, each with its kind; nothing else is a keyword")
    ck.rule("R14.2", "every reference operator spelling is in the lexer's operator table with its kind and is scannable")
    ck.rule("R14.3", "next_token dispatch: reference punctuation spellings and token-class representatives reach the reference kind")
    ck.rule("R14.4", "TokenKind::is_trivia and SyntaxKind::is_trivia agree under From<TokenKind>")
    ck.rule("R14.5", "preprocessor directive table == reference directives")
    ck.rule("R14.10", "identifier and variable-name character classes equal the reference classes")
    ck.rule("R14.9", "digit-leading identifiers: the scanner entered on a digit can produce an identifier")
    ck.rule("R14.11", "the number scanner agrees with the reference on every short digit- or sign-led string")
    ck.rule("R14.12", "line comment, variable name and code fragment scanners agree with the reference on every short string")
    ck.rule("R14.8", "block comment scanner keeps a nesting depth: `/*` opens, `*/` closes, the token ends at depth 0")
    ck.rule("R14.7", "string literal scanner: transitions required for valid literals (escapes, closing quote)")
    ck.rule("R14.6", "integer lexemes are validated with a full-width unsigned parse (signed only behind a leading '-')")

    lx = lexer_tables(ck, prog)
    kw = lx["keywords"]
    for w, k in sorted(ref.KEYWORDS.items()):
        ck.ob("R14.1", "kw:%s" % w, kw.get(w) == k, "'%s' -> %s" % (w, kw.get(w)),
              msg="reserved word '%s' lexes as %s, reference kind %s" % (w, kw.get(w, "Id"), k))
    for w, k in sorted(kw.items()):
        if w not in ref.KEYWORDS:
            ck.ob("R14.1", "extra-kw:%s" % w, False,
                  msg="'%s' is a plain identifier in TableGen but the lexer returns %s" % (w, k))
    ck.ob("R14.1", "default", lx["ident_default"] == [("variant", TOKENKIND, "Id")],
          "non-keywords lex as Id", msg="identifier fallback is %r, expected Id" % (lx["ident_default"],))
    ipred = lx["ident_pred_fn"]
    good = len(ipred) == 1 and all(paths.eval_char_pred(prog, ipred[0], c) is True
                                   for c in "azAZ09_") and \
        all(paths.eval_char_pred(prog, ipred[0], c) is False for c in " -.+<>;:\"#!$é")
    ck.ob("R14.1", "ident-continue", good, "identifier continuation = [A-Za-z0-9_] (%s)" % ipred,
          msg="identifier continuation predicate %r does not accept exactly [A-Za-z0-9_] on the probe set" % (ipred,))
    ck.floor("R14.1", "keyword rows", len(kw), 25)

    ops = lx["bangops"]
    pred = lx["bang_pred"]
    for w, k in sorted(ref.BANG_OPERATORS.items()):
        ok = ops.get(w) == k and all(pred(c) for c in w)
        ck.ob("R14.2", "op:%s" % w, ok, "'!%s' -> %s" % (w, ops.get(w)),
              msg="operator '!%s' lexes as %s (reference kind %s)%s" % (
                  w, ops.get(w, "Error"), k, "" if all(pred(c) for c in w) else "; scanner predicate rejects it"))
    for w, k in sorted(ops.items()):
        if w not in ref.BANG_OPERATORS:
            if w in ref.UNSURE_BANG:
                ck.info("lexer accepts newer operator !%s" % w)
            else:
                ck.info("lexer accepts '!%s' (%s), which the reference table does not list" % (w, k))
        sc = all(pred(c) for c in w)
        ck.ob("R14.2", "scannable:%s" % w, sc, "every character of '%s' passes the operator scanner" % w,
              msg="lexer table entry '!%s' can never match: the scanner stops at a character it contains" % w)
    # kind injectivity: two spellings must not share a kind
    inv = {}
    for w, k in ops.items():
        inv.setdefault(k, []).append(w)
    for k, ws in inv.items():
        ck.ob("R14.2", "unique:%s" % k, len(ws) == 1, "%s has one spelling" % k,
              msg="kind %s is produced for several spellings %s" % (k, ws), nontrivial=False)
    ck.floor("R14.2", "operator rows", len(ops), 52)

    # R14.3 -----------------------------------------------------------------------
    nb = prog.body(LEXER + "next_token")
    ck.anchor(nb is not None, "Lexer::next_token not found")
    n = 0
    for sp, k in sorted(ref.PUNCT.items()):
        if sp in ("+", "-", "#"):
            continue    # dispatched to a sub-scanner; covered by the class rows below
        r = lex_first(prog, nb, sp)
        n += 1
        ok = r is not None and r[0] == ("variant", TOKENKIND, k) and r[1] == ""
        ck.ob("R14.3", "punct:%s" % sp, ok, "'%s' -> %s" % (sp, r),
              msg="punctuation '%s' reaches %s, reference kind %s" % (sp, r, k))
    classes = [("a", {"Id"}), ("_", {"Id"}), ("Z", {"Id"}), ("7", {"IntVal"}), ("0", {"IntVal", "BinaryIntVal"}),
               ("+", {"Plus", "IntVal"}), ("-", {"Minus", "IntVal"}), ('"', {"StrVal"}), ("$", {"VarName"}),
               ("[{", {"CodeFragment"}), ("!", set(ref.BANG_OPERATORS.values())),
               ("#", {"Paste"} | set(ref.PREPROCESSOR.values())), ("//", {"LineComment"}),
               ("/*", {"BlockComment"}), (" ", {"Whitespace"}), ("\t", {"Whitespace"}),
               ("\n", {"Whitespace"}), ("\r", {"Whitespace"})]
    for sp, kinds in classes:
        r = lex_first(prog, nb, sp)
        n += 1
        ok = False
        got = None
        if r is not None and r[1] == "":
            res = r[0]
            if res[0] == "variant":
                got = {res[2]}
            elif res[0] == "call":
                got = may_return_kinds(prog, res[1])
            ok = got is not None and kinds <= got
        ck.ob("R14.3", "class:%r" % sp, ok, "%r dispatches to a scanner producing %s" % (sp, sorted(kinds)),
              msg="input starting with %r is dispatched to %s which cannot produce %s" % (
                  sp, r, sorted(kinds - (got or set()))))
    r = lex_first(prog, nb, "")
    ck.ob("R14.3", "eof", r is not None and r[0] == ("variant", TOKENKIND, "Eof"), "end of input -> Eof",
          msg="end of input yields %s" % (r,))
    for sp in ("..", "@", "é", "/"):
        r = lex_first(prog, nb, sp)
        ok = r is not None and r[0][0] == "call" and (r[0][1] or "").endswith("::error")
        ck.ob("R14.3", "invalid:%r" % sp, ok, "%r is a lexical error" % sp,
              msg="invalid input %r is not reported as a lexical error (%s)" % (sp, r))
    ck.count(n)

    # R14.4 -----------------------------------------------------------------------
    tb = prog.body("syntax::token_kind::TokenKind::is_trivia")
    sb = prog.body("syntax::syntax_kind::SyntaxKind::is_trivia")
    fb = prog.body("syntax::syntax_kind::<impl std::convert::From<syntax::token_kind::TokenKind> for rowan::SyntaxKind>::from")
    ck.anchor(tb and sb and fb, "is_trivia / From<TokenKind> not found")
    SK = "syntax::syntax_kind::SyntaxKind"
    tt = paths.variant_table(tb, prog, TOKENKIND)
    st = paths.variant_table(sb, prog, SK)
    ft = paths.variant_table(fb, prog, TOKENKIND)
    conv = {}
    for v, res in ft.items():
        kinds = set()
        for p in res:
            pass
        conv[v] = res
    # From<TokenKind> builds `kind` then calls kind.into(): recover the SyntaxKind aggregate per arm
    conv = token_to_syntax(prog, fb)
    ck.anchor(len(conv) >= 100, "From<TokenKind> table unreadable (%d rows)" % len(conv))
    # kinds the preprocessor layer consumes never reach the parser/tree: the non-default arms of
    # PreProcessor::next_token's match (derived, not frozen)
    pb = prog.body("syntax::preprocessor::PreProcessor::<T>::next_token")
    ck.anchor(pb is not None, "PreProcessor::next_token not found")
    consumed = set()
    tkv = {v["discr"]: v["name"] for v in prog.adts[TOKENKIND]["variants"]}
    for i, bb in enumerate(pb.blocks):
        t = bb["term"]
        if t["k"] == "switch" and paths.switch_cond(pb, prog, i).kind == "discr":
            consumed |= {tkv[a[0]] for a in t["arms"]}
    ck.extra["kinds_consumed_by_preprocessor"] = sorted(consumed)
    for v in sorted(conv):
        if v in consumed:
            continue
        a = tt.get(v) == {("const", "true")}
        b = st.get(conv[v]) == {("const", "true")}
        ck.ob("R14.4", "trivia:%s" % v, a == b, "%s trivia=%s, %s trivia=%s" % (v, a, conv[v], b),
              msg="TokenKind::%s is_trivia=%s but SyntaxKind::%s is_trivia=%s" % (v, a, conv[v], b),
              nontrivial=a or b)
    ck.extra["token_to_syntax_rows"] = len(conv)

    # R14.6 -----------------------------------------------------------------------
    integer_width(ck, prog)
    # R14.10 ----------------------------------------------------------------------
    # identifier / variable-name character classes: the predicates the scanners pass to eat_if / eat_while are
    # evaluated on every ASCII character and on representatives of non-ASCII letters and digits
    probes = [chr(c) for c in range(32, 127)] + ["\u00e9", "\u03b1", "\u0661", "\u4e2d"]
    want = {
        "is_identifier_start": lambda c: c.isascii() and (c.isalpha() or c == "_"),
        "is_identifier_continue": lambda c: c.isascii() and (c.isalnum() or c == "_"),
    }
    for name, ref_pred in want.items():
        fn = None
        for pth in prog.bodies:
            if pth.startswith("syntax::lexer") and pth.endswith("::" + name):
                fn = pth
        ck.anchor(fn is not None, "lexer predicate %s not found" % name)
        bad = []
        for ch in probes:
            got = paths.eval_char_pred(prog, fn, ch)
            ck.anchor(got is not None, "lexer predicate %s could not be evaluated on %r" % (name, ch))
            if got != ref_pred(ch):
                bad.append(ch)
        ck.ob("R14.10", "class:%s" % name, not bad, "%s agrees with the reference class on %d probe characters" % (name, len(probes)),
              msg="lexer predicate %s differs from the TableGen identifier character class on %s" % (name, bad[:12]))
    for meth, preds in (("identifier", ["is_identifier_continue"]), ("var_name", ["is_identifier_start", "is_identifier_continue"])):
        mb = find_method(prog, meth)
        ck.anchor(mb is not None, "Lexer::%s not found" % meth)
        used = set()
        for i, t in mb.calls():
            for ga in (t["f"].get("args") or []):
                ty = ga.get("ty") or ""
                for pn in want:
                    if pn in ty:
                        used.add(pn)
        ck.ob("R14.10", "uses:%s" % meth, set(preds) <= used, "Lexer::%s scans with %s" % (meth, sorted(used)),
              msg="Lexer::%s no longer scans with the identifier predicates %s (uses %s)" % (meth, preds, sorted(used)))

    # R14.9 -----------------------------------------------------------------------
    nb = find_method(prog, "number")
    ck.anchor(nb is not None, "Lexer::number not found")
    kinds = may_return_kinds(prog, nb.path)
    ck.ob("R14.9", "digit-leading-identifier", "Id" in kinds,
          "the scanner entered on a digit can produce Id (it returns %s)" % sorted(kinds)[:8],
          msg="Lexer::number (the scanner entered on a digit) can only return %s: a digit-leading identifier such as `0foo` or "
              "`2x4` is split into an integer and an identifier" % sorted(kinds))
    # R14.7 -----------------------------------------------------------------------
    string_scanner(ck, prog)
    # R14.8 -----------------------------------------------------------------------
    comment_scanner(ck, prog)
    number_scanner(ck, prog)
    small_scanners(ck, prog)

    # R14.5 -----------------------------------------------------------------------
    dirs = lx["directives"]
    for w, k in ref.PREPROCESSOR.items():
        ck.ob("R14.5", "directive:%s" % w, dirs.get(w) == k, "#%s -> %s" % (w, dirs.get(w)),
              msg="directive '#%s' lexes as %s, expected %s" % (w, dirs.get(w), k))
    for w in dirs:
        ck.ob("R14.5", "extra-directive:%s" % w, w in ref.PREPROCESSOR, nontrivial=False,
              msg="'#%s' is not a TableGen preprocessor directive" % w)


def integer_width(ck, prog):
    """R14.6: the parse that validates an integer lexeme accepts the whole 64-bit range: every radix/decimal parse
    reachable from Lexer::number targets an unsigned 64-bit (or wider) integer, except a parse that runs only for
    lexemes starting with `-`."""
    from .. import cfg
    nb = None
    for p, b in prog.bodies.items():
        if p.endswith("lexer::Lexer::<'a>::number") or p.endswith("lexer::Lexer::number"):
            nb = b
    ck.anchor(nb is not None, "Lexer::number not found")
    todo = [nb]
    seen = set()
    sites = 0
    while todo:
        b = todo.pop()
        if b.path in seen:
            continue
        seen.add(b.path)
        dom = None
        for i, t in b.calls():
            c = Body.callee(t) or ""
            cb = prog.body(c)
            if cb is not None and cb.crate == b.crate and cb.path not in seen and "lexer" in cb.path:
                todo.append(cb)
            m = re.match(r"core::num::<impl (\w+)>::from_str_radix$", c)
            ty = None
            if m:
                ty = m.group(1)
            elif c == "core::str::<impl str>::parse":
                ga = t["f"].get("args") or []
                ty = ga[0].get("ty") if ga else None
                if ty is not None and not re.match(r"[iu](8|16|32|64|128|size)$", ty):
                    ty = None
            if ty is None:
                continue
            sites += 1
            ok = ty in ("u64", "u128")
            why = "parses as %s" % ty
            if not ok and ty in ("i64", "i128"):
                # allowed only under a dominating `starts_with('-')` == true
                if dom is None:
                    dom = cfg.dominators(b)
                for j, tt in b.calls():
                    cc = Body.callee(tt) or ""
                    if cc.endswith("str>::starts_with") and any((a.get("const") or {}).get("int") == 45 for a in tt["args"]):
                        sw = b.term(tt["t"])
                        if sw["k"] == "switch":
                            false_t = [tg for v, tg in sw["arms"] if v == 0]
                            true_t = sw["else"] if false_t else None
                            if true_t is not None and true_t in dom[i] and true_t not in false_t:
                                ok = True
                                why = "parses as %s only for lexemes starting with '-'" % ty
            ck.ob("R14.6", "int-parse:%s:%d" % (b.path.rsplit("::", 1)[-1], sites), ok, why,
                  msg="%s validates an integer lexeme by parsing it as %s: hexadecimal/binary/decimal literals with bit 63 set "
                      "(0x8000000000000000 ..) are reported as lexical errors [%s]" % (b.path, ty, b.where(i)))
    ck.floor("R14.6", "integer parse sites reachable from Lexer::number", sites, 1)


def find_method(prog, name):
    for p, b in prog.bodies.items():
        if p.startswith("syntax::lexer::Lexer") and p.endswith("::" + name) and not b.parent:
            return b
    return None


def _run_scanner(prog, body, text):
    from .. import mirexec
    def char_pred(fr, args, t):
        # a pure character predicate of the lexer (is_newline, is_identifier_start, ..) evaluated from its own MIR
        callee = t["f"].get("fn")
        a = args[0] if args else None
        n = 0
        while a is not None and a[0] == "ref" and n < 4:
            a = fr.read_place(a[1])
            n += 1
        if a is None or a[0] != "int":
            raise mirexec.Unsupported("call to %s with a non-character argument" % callee)
        v = paths.eval_char_pred(prog, callee, chr(a[1]))
        if v is None:
            raise mirexec.Unsupported("call to %s could not be evaluated" % callee)
        return ("int", 1 if v else 0)
    extra = {"Lexer::<'a>::error": lambda fr, args, t: ("variant", "Error", -1, [])}
    for pth, pb in prog.bodies.items():
        if pth.startswith("syntax::lexer::") and not pb.parent and pb.argc == 1 and "Lexer" not in pth and \
                pb.local_ty(0) == "bool" and pb.local_ty(1) in ("char", "&char"):
            extra[pth] = char_pred
    model = mirexec.ScannerModel(text, extra=extra)
    fr = mirexec.Frame(body, model)
    fr.locals[1] = ("self", ())
    out = fr.run(0)
    kind = out[1][1] if out[0] == "return" and out[1] and out[1][0] == "variant" else str(out)
    return kind, model.pos


def _all_strings(alphabet, maxlen):
    level = [""]
    for _ in range(maxlen):
        level = [w + c for w in level for c in alphabet]
        for w in level:
            yield w


def string_scanner(ck, prog):
    """R14.7: Lexer::string (entered after the opening quote), evaluated from its MIR on every string of up to 5
    characters over {backslash, quote, apostrophe, n, other, newline} with the scanner API modelled (unscanny: trusted).
    Whenever the TableGen reference says the characters begin a valid literal that ends after p characters (a backslash
    escapes exactly the next character, which must be one of \\ \' \" \t \n), the scanner must return StrVal having
    consumed exactly p characters. Strings the reference rejects are not constrained."""
    from .. import mirexec
    b = find_method(prog, "string")
    ck.anchor(b is not None, "Lexer::string not found")

    def ref(w):
        i = 0
        while i < len(w):
            c = w[i]
            if c == "\\":
                if i + 1 >= len(w) or w[i + 1] not in "\\\"'nt":
                    return None
                i += 2
            elif c == '"':
                return i + 1
            elif c in "\r\n":
                return None
            else:
                i += 1
        return None
    n = 0
    bad = {}
    for w in _all_strings(["\\", '"', "'", "n", "a", "\n"], 7 if ck.tier == "thorough" else 5):
        p = ref(w)
        if p is None:
            continue
        n += 1
        try:
            kind, pos = _run_scanner(prog, b, w)
        except mirexec.Unsupported as e:
            ck.anchor(False, "Lexer::string could not be evaluated (%s)" % e)
        if kind != "StrVal" or pos != p:
            sig = (kind, pos - p)
            if sig not in bad or len(w) < len(bad[sig][0]):
                bad[sig] = (w, p, kind, pos)
    ck.count(n)
    for sig, (w, p, kind, pos) in sorted(bad.items(), key=str):
        lit = '"' + w.replace("\n", "\\n")
        ck.ob("R14.7", "string:%s" % lit, False,
              msg="Lexer::string on the characters %s (after the opening quote): the literal ends after %d characters, the scanner "
                  "returns %s after %d (escapes: a backslash escapes exactly the next character, one of \\\\ \\' \\\" \\t \\n)"
                  % (lit, p, kind, pos))
    ck.ob("R14.7", "string:all-valid-literals", not bad, "%d valid literal bodies of up to 5 characters end where the reference says, as StrVal" % n,
          msg="Lexer::string disagrees with the reference on %d classes of valid literals" % len(bad))
    ck.floor("R14.7", "valid string bodies evaluated", n, 1000)


def comment_scanner(ck, prog):
    """R14.8: Lexer::block_comment (entered after the opening `/*`), evaluated from its MIR on every string of up to 8
    characters over {/, *, other}: whenever the comment, with nesting, ends after p characters, the scanner must return
    BlockComment having consumed exactly p characters. Unterminated comments are not constrained."""
    from .. import mirexec
    b = find_method(prog, "block_comment")
    ck.anchor(b is not None, "Lexer::block_comment not found")

    def ref(w):
        depth, i = 1, 0
        while i < len(w):
            if w[i:i + 2] == "*/":
                depth -= 1
                i += 2
                if depth == 0:
                    return i
            elif w[i:i + 2] == "/*":
                depth += 1
                i += 2
            else:
                i += 1
        return None
    n = 0
    bad = {}
    for w in _all_strings(["/", "*", "a"], 11 if ck.tier == "thorough" else 8):
        p = ref(w)
        if p is None or p != len(w):
            continue            # evaluate each terminated comment once, with nothing after it ...
        for tail in ("", "a", "*/"):        # ... and with text after it that must stay untouched
            n += 1
            try:
                kind, pos = _run_scanner(prog, b, w + tail)
            except mirexec.Unsupported as e:
                ck.anchor(False, "Lexer::block_comment could not be evaluated (%s)" % e)
            if kind != "BlockComment" or pos != p:
                sig = (kind, (pos > p) - (pos < p))
                if sig not in bad or len(w + tail) < len(bad[sig][0]):
                    bad[sig] = (w + tail, p, kind, pos)
    ck.count(n)
    for sig, (w, p, kind, pos) in sorted(bad.items(), key=str):
        ck.ob("R14.8", "comment:/*%s" % w, False,
              msg="Lexer::block_comment on `/*%s`: with nesting the comment ends after %d characters (after the opener), the scanner "
                  "returns %s after %d" % (w, p, kind, pos))
    ck.ob("R14.8", "comment:all-terminated", not bad, "%d terminated (nested) comments end where the reference says" % n,
          msg="Lexer::block_comment disagrees with the nested-comment reference on %d classes of comments" % len(bad))
    ck.floor("R14.8", "terminated comment bodies evaluated", n, 1000)


def _char_fn_factory(prog):
    """(fn item or closure path, char) -> bool | None: a character predicate used as a scanner pattern, evaluated from
    std's documented classes (ref.CHAR_PREDICATES), from the closure's MIR, or from the lexer's own predicate's MIR"""
    from .. import mirexec, ref as _ref
    cache = {}

    def char_fn(fn, ch):
        k = (fn, ch)
        if k not in cache:
            if fn in _ref.CHAR_PREDICATES:
                cache[k] = _ref.CHAR_PREDICATES[fn](ch)
            else:
                body = prog.body(fn)
                if body is not None and body.parent:           # closure: (env, char)
                    fr = mirexec.Frame(body, lambda *a: (_ for _ in ()).throw(mirexec.Unsupported("call inside a pattern closure")))
                    fr.locals[2] = ("int", ord(ch))
                    out = fr.run(0)
                    cache[k] = bool(out[1][1]) if out[0] == "return" and out[1] and out[1][0] == "int" else None
                else:
                    cache[k] = paths.eval_char_pred(prog, fn, ch)
        return cache[k]
    return char_fn


def small_scanners(ck, prog):
    """R14.12: the three one-loop scanners, evaluated from their MIR on every short string (scanner API modelled):
    Lexer::line_comment (entered after `//`) returns LineComment having consumed exactly the characters before the first
    CR or LF (TGLexer::SkipBCPLComment); Lexer::var_name (entered after `$`) returns VarName after the maximal
    [A-Za-z_][A-Za-z0-9_]* and an error when there is none; Lexer::code_fragment (entered after `[{`) returns
    CodeFragment having consumed the text up to and including the first `}]`, and an error when there is none."""
    from .. import mirexec
    char_fn = _char_fn_factory(prog)

    def run(body, w):
        def std_char(fr, args, t):
            a = args[0] if args else None
            n = 0
            while a is not None and a[0] == "ref" and n < 4:
                a = fr.read_place(a[1])
                n += 1
            if a is None or a[0] != "int":
                raise mirexec.Unsupported("character predicate on a non-character")
            v = char_fn(t["f"].get("fn"), chr(a[1]))
            if v is None:
                raise mirexec.Unsupported("character predicate %s" % t["f"].get("fn"))
            return ("int", 1 if v else 0)
        from .. import ref as _ref
        extra = {"Lexer::<'a>::error": lambda fr, args, t: ("variant", "Error", -1, [])}
        for name in _ref.CHAR_PREDICATES:
            extra[name] = std_char
        for pth, pb in prog.bodies.items():
            if pth.startswith("syntax::lexer::") and not pb.parent and pb.argc == 1 and "Lexer" not in pth and \
                    pb.local_ty(0) == "bool" and pb.local_ty(1) in ("char", "&char"):
                extra[pth] = std_char
        model = mirexec.ScannerModel(w, extra=extra, char_fn=char_fn)
        fr = mirexec.Frame(body, model)
        fr.locals[1] = ("self", ())
        out = fr.run(0)
        if out[0] == "diverge":
            return "panic", model.pos
        kind = out[1][1] if out[0] == "return" and out[1] and out[1][0] == "variant" else str(out)
        return kind, model.pos

    idc = lambda ch: ch.isascii() and (ch.isalnum() or ch == "_")
    ids = lambda ch: ch.isascii() and (ch.isalpha() or ch == "_")

    def ref_line(w):
        j = 0
        while j < len(w) and w[j] not in "\r\n":
            j += 1
        return "LineComment", j

    def ref_var(w):
        if not w or not ids(w[0]):
            return "Error", None
        j = 1
        while j < len(w) and idc(w[j]):
            j += 1
        return "VarName", j

    def ref_code(w):
        i = w.find("}]")
        return ("CodeFragment", i + 2) if i >= 0 else ("Error", None)
    thorough = ck.tier == "thorough"
    specs = [("line_comment", ref_line, ["a", "/", "*", " ", "\r", "\n", "\u00e9", "\u2028"], 5 if thorough else 4),
             ("var_name", ref_var, ["a", "Z", "_", "0", "9", "$", " ", ".", "-", "\u00e9", "\u0661"], 4 if thorough else 3),
             ("code_fragment", ref_code, ["}", "]", "{", "[", "a", "\n"], 7 if thorough else 6)]
    for meth, ref, alphabet, maxlen in specs:
        b = find_method(prog, meth)
        ck.anchor(b is not None, "Lexer::%s not found" % meth)
        n = 0
        bad = {}
        for w in [""] + list(_all_strings(alphabet, maxlen)):
            want = ref(w)
            try:
                got = run(b, w)
            except mirexec.Unsupported as e:
                ck.anchor(False, "Lexer::%s could not be evaluated (%s)" % (meth, e))
            n += 1
            ok = got[0] == want[0] and (want[1] is None or got[1] == want[1])
            if not ok:
                sig = (got[0], want[0], 0 if want[1] is None else (got[1] > want[1]) - (got[1] < want[1]))
                if sig not in bad or len(w) < len(bad[sig][0]):
                    bad[sig] = (w, want, got)
        ck.count(n)
        for sig, (w, want, got) in sorted(bad.items(), key=str):
            ck.ob("R14.12", "%s:%s" % (meth, w.encode("unicode_escape").decode()), False,
                  msg="Lexer::%s on %r (after the opener): the reference gives %s%s, the scanner returns %s after %d characters" % (
                      meth, w, want[0], "" if want[1] is None else " after %d characters" % want[1], got[0], got[1]))
        ck.ob("R14.12", "%s:all" % meth, not bad, "%d strings scanned like the reference" % n,
              msg="Lexer::%s disagrees with the reference on %d classes of inputs" % (meth, len(bad)))
        ck.floor("R14.12", "%s strings evaluated" % meth, n, 300)


def number_scanner(ck, prog):
    """R14.11: Lexer::number (entered after the first character: a digit, `+` or `-`), evaluated from its MIR on every
    string of up to 4 (thorough: 5) characters over {0 1 2 b x a f F g _ + - space}. Reference: LLVM TGLexer::LexToken /
    LexNumber - after the leading decimal digits an identifier character makes the lexeme a digit-leading identifier
    ([A-Za-z0-9_]*), except `0x` / `0b` directly followed by a digit of that radix, which starts a hexadecimal / binary
    integer; a sign not followed by a digit is the `+` / `-` token. The scanner must return that kind having consumed
    exactly that many characters and never an error. Modelled, not evaluated: the scanner API (unscanny), std's char
    classes, Lexer::identifier (consumes identifier characters, yields Id or a keyword) and interpret_number (accepts a
    well-formed lexeme that fits 64 bits; R14.6 looks at its width)."""
    from .. import mirexec, ref as _ref
    b = find_method(prog, "number")
    ck.anchor(b is not None, "Lexer::number not found")
    ck.anchor(b.argc == 3, "Lexer::number no longer takes (self, start, first character)")
    ident_cont = None
    ib = find_method(prog, "identifier")
    ck.anchor(ib is not None, "Lexer::identifier not found")
    for i, t in ib.calls():
        if (Body.callee(t) or "").endswith("Scanner::<'a>::eat_while"):
            raw = t["args"][1]
            ident_cont = raw.get("fn") if isinstance(raw, dict) else None
    ck.anchor(ident_cont is not None, "the continuation predicate of Lexer::identifier was not found")
    cache = {}

    def char_fn(fn, ch):
        k = (fn, ch)
        if k not in cache:
            if fn in _ref.CHAR_PREDICATES:
                cache[k] = _ref.CHAR_PREDICATES[fn](ch)
            else:
                body = prog.body(fn)
                if body is not None and body.parent:           # closure: (env, char)
                    fr = mirexec.Frame(body, lambda *a: (_ for _ in ()).throw(mirexec.Unsupported("call inside a pattern closure")))
                    fr.locals[2] = ("int", ord(ch))
                    out = fr.run(0)
                    cache[k] = bool(out[1][1]) if out[0] == "return" and out[1] and out[1][0] == "int" else None
                else:
                    cache[k] = paths.eval_char_pred(prog, fn, ch)
        return cache[k]

    def deref(fr, a):
        n = 0
        while a is not None and a[0] == "ref" and n < 4:
            a = fr.read_place(a[1])
            n += 1
        return a

    def run(w):
        model = None

        def std_char(fr, args, t):
            a = deref(fr, args[0] if args else None)
            if a is None or a[0] != "int":
                raise mirexec.Unsupported("character predicate on a non-character")
            v = char_fn(t["f"].get("fn"), chr(a[1]))
            if v is None:
                raise mirexec.Unsupported("character predicate %s" % t["f"].get("fn"))
            return ("int", 1 if v else 0)

        def identifier(fr, args, t):
            while model.pos < len(w) and char_fn(ident_cont, w[model.pos]):
                model.pos += 1
            return ("variant", "Id", -1, [])

        def interpret(fr, args, t):
            a = deref(fr, args[0] if args else None)
            if a is None or a[0] != "str":
                raise mirexec.Unsupported("interpret_number on an unevaluated lexeme")
            lex = a[1]
            import re as _re
            ok = _re.fullmatch(r"[+-]?[0-9]+|0x[0-9a-fA-F]+|0b[01]+", lex) is not None
            return ("some", ("int", 0)) if ok else ("none",)

        def is_none(fr, args, t):
            a = deref(fr, args[0] if args else None)
            if a is None or a[0] not in ("some", "none"):
                raise mirexec.Unsupported("Option::is_none on an unevaluated value")
            return ("int", 1 if a[0] == "none" else 0)
        extra = {"Lexer::<'a>::error": lambda fr, args, t: ("variant", "Error", -1, []),
                 "Lexer::<'a>::identifier": identifier, "lexer::interpret_number": interpret,
                 "Option::<T>::is_none": is_none, "Option::<T>::is_some": lambda fr, a, t: ("int", 1 - is_none(fr, a, t)[1])}
        for name in _ref.CHAR_PREDICATES:
            extra[name] = std_char
        for pth, pb in prog.bodies.items():
            if pth.startswith("syntax::lexer::") and not pb.parent and pb.argc == 1 and "Lexer" not in pth and \
                    pb.local_ty(0) == "bool" and pb.local_ty(1) in ("char", "&char"):
                extra[pth] = std_char
        model = mirexec.ScannerModel(w, extra=extra, char_fn=char_fn)
        model.pos = 1
        fr = mirexec.Frame(b, model)
        fr.locals[1] = ("self", ())
        fr.locals[2] = ("int", 0)
        fr.locals[3] = ("int", ord(w[0]))
        out = fr.run(0)
        if out[0] == "diverge":
            return "panic", model.pos
        kind = out[1][1] if out[0] == "return" and out[1] and out[1][0] == "variant" else str(out)
        return kind, model.pos

    def ref(w):
        idc = lambda ch: ch.isascii() and (ch.isalnum() or ch == "_")
        ids = lambda ch: ch.isascii() and (ch.isalpha() or ch == "_")
        if w[0] in "+-":
            if len(w) > 1 and w[1].isdigit():
                j = 1
                while j < len(w) and w[j].isdigit():
                    j += 1
                return "IntVal", j
            return ("Plus" if w[0] == "+" else "Minus"), 1
        j = 0
        while j < len(w) and w[j].isdigit():
            j += 1
        if j < len(w) and ids(w[j]):
            if j == 1 and w[0] == "0" and w[1] in "xb" and len(w) > 2 and \
                    (w[2] in "0123456789abcdefABCDEF" if w[1] == "x" else w[2] in "01"):
                k = 2
                digits = "0123456789abcdefABCDEF" if w[1] == "x" else "01"
                while k < len(w) and w[k] in digits:
                    k += 1
                return ("IntVal" if w[1] == "x" else "BinaryIntVal"), k
            k = j
            while k < len(w) and idc(w[k]):
                k += 1
            return "Id", k
        return "IntVal", j
    n = 0
    bad = {}
    alphabet = ["0", "1", "2", "b", "x", "a", "f", "F", "g", "_", "+", "-", " "]
    for w in _all_strings(alphabet, 5 if ck.tier == "thorough" else 4):
        if w[0] not in "012+-":
            continue
        n += 1
        want = ref(w)
        try:
            got = run(w)
        except mirexec.Unsupported as e:
            ck.anchor(False, "Lexer::number could not be evaluated on %r (%s)" % (w, e))
        if got != want:
            sig = (want[0], got[0], (got[1] > want[1]) - (got[1] < want[1]))
            if sig not in bad or len(w) < len(bad[sig][0]):
                bad[sig] = (w, want, got)
    ck.count(n)
    for sig, (w, want, got) in sorted(bad.items(), key=str):
        ck.ob("R14.11", "number:%s->%s%s" % (sig[0], sig[1], {0: "", 1: ":longer", -1: ":shorter"}[sig[2]]), False,
              msg="Lexer::number on `%s`: the reference lexes %s of %d character(s), the scanner returns %s after %d" % (
                  w, want[0], want[1], got[0], got[1]))
    ck.ob("R14.11", "number:all", not bad, "%d digit- or sign-led strings are lexed as the reference says" % n,
          msg="Lexer::number disagrees with the reference on %d classes of lexemes" % len(bad))
    ck.floor("R14.11", "digit- or sign-led strings evaluated", n, 5000)


def token_to_syntax(prog, fb):
    """TokenKind variant -> SyntaxKind variant from the match in From<TokenKind> for rowan::SyntaxKind."""
    variants = {v["discr"]: v["name"] for v in prog.adts[TOKENKIND]["variants"]}
    out = {}
    for p in paths.enum_paths(fb, prog):
        if p.end != "return":
            continue
        chosen = None
        for e in p.events:
            if e[0] == "branch" and e[2].kind == "discr" and e[2].data[1] == TOKENKIND and not isinstance(e[3], tuple):
                chosen = e[3]
        sk = None
        for e in p.events:
            if e[0] == "assign":
                rv = e[2]["rv"]
                if "agg" in rv and isinstance(rv["agg"], dict) and rv["agg"].get("adt") == "syntax::syntax_kind::SyntaxKind":
                    sk = rv["agg"]["variant"]
        if chosen is not None and sk is not None:
            out[variants[chosen]] = sk
    return out
