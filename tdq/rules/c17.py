"""C17 Range validity of every analysis result — provenance of ranges and file pairing."""
import re

from .. import prov, cfg
from ..facts import Body, op_local
from . import c02
from .c05 import file_stack_rule

ROWAN_RANGE = re.compile(
    r"SyntaxNode::<L>::text_range$|SyntaxToken::<L>::text_range$|NodeOrToken<.*>::text_range$|"
    r"^syntax::ast::Identifier::range$|^ide::utils::range_excluding_trivia$|"
    r"^text_size::TextRange::(start|end)$|^rowan::TextRange::(start|end)$|^syntax::parser::TextRange::(start|end)$|"
    r"SyntaxElement.*::text_range$|text_range$")
RANGE_CTOR = re.compile(r"TextRange::(new|at|empty|up_to)$")
SINKS = [
    # (callee regex, index of the range/offset argument, what)
    (re.compile(r"^ide::index::context::IndexCtx::<'a>::error$"), 1, "diagnostic range"),
    (re.compile(r"^ide::file_system::FileRange::new$"), 1, "FileRange"),
    (re.compile(r"^ide::handlers::inlay_hint::InlayHint::new$"), 0, "inlay hint position"),
]
AGG_SINKS = {
    "ide::handlers::document_symbol::DocumentSymbol": "range",
    "ide::handlers::folding_range::FoldingRange": "range",
    "ide::handlers::document_link::DocumentLink": "range",
}
WHITELISTED_CTORS = ("ide::utils::range_excluding_trivia", "ide::symbol_map::SymbolMap::iter_symbols_in_range",
                     "ide::symbol_map::SymbolMap::iter_symbols_in_range::{closure#0}")


def classify(prog, b, o, depth=0):
    """'rowan' | 'stored' | 'param' | 'arith' | 'ctor' | 'other'"""
    if o[0] == "call":
        c = o[1]
        if ROWAN_RANGE.search(c):
            return "rowan"
        if c.endswith("utils::identifier") or c.endswith("index_name_value"):
            return "rowan"       # (name, FileRange) of an identifier token: checked by R06.4
        if RANGE_CTOR.search(c):
            return "ctor"
        if re.search(r"Symbol::<'a>::(define_loc|reference_locs)$|Iterator>::next$|::next$|::iter$", c):
            return "stored"
        if c.endswith("SymbolMap::iter_symbols_in_range"):
            return "stored"
        if re.search(r"^ide::symbol_map::SymbolMap::(symbol|record|template_arg|record_field|variable|defset|multiclass|defm|find_symbol_at)$", c):
            return "stored"      # a symbol of the table: its ranges were checked where the symbol was built
        return "other:" + c
    if o[0] == "arg":
        return "param"
    if o[0] == "arith":
        return "arith"
    if o[0] == "const":
        return "const"
    return "other:" + str(o[0])


def run(ck, prog):
    ck.explanation = (
        "Every TextRange/TextSize that reaches a result (diagnostic, FileRange of a symbol, document symbol, "
        "folding range, document link, inlay-hint position) is traced back by def-use provenance: it must be a "
        "rowan text_range()/Identifier::range() value, a start()/end() of one, a range already stored in the "
        "symbol table, a parameter (then the callers are checked), or the result of one of two reviewed "
        "constructors whose operands are themselves rowan start/end values in order (R17.1); no arithmetic on "
        "offsets anywhere in crate ide (R17.1b). Ranges are paired with the file on top of the include stack, "
        "which is balanced (R17.2). On the parser side, error ranges are token-boundary cursor values (R17.3 = "
        "C02's R02.6). Trusted: rowan ranges lie on char boundaries inside the text they were parsed from.")
    ck.trusted = ["rowan: node/token ranges are inside the text, on char boundaries, start <= end"]
    ck.rule("R17.1", "range provenance: rowan-derived, stored, or reviewed constructor")
    ck.rule("R17.2", "ranges are paired with the file being walked")
    ck.rule("R17.3", "syntax error ranges are cursor values (shared with C02)")

    n = 0
    per = {}
    todo = []
    for b in prog.bodies.values():
        if b.crate != "ide.rlib" or b.path.startswith("ide::tests"):
            continue
        for i, t in b.calls():
            c = Body.callee(t) or ""
            for rx, idx, what in SINKS:
                if rx.search(c) and idx < len(t["args"]):
                    todo.append((b, i, t["args"][idx], what, None))
        for i, bb in enumerate(b.blocks):
            if bb["cleanup"]:
                continue
            for s in bb["s"]:
                rv = s.get("rv") or {}
                if "agg" in rv and isinstance(rv["agg"], dict) and rv["agg"].get("adt") in AGG_SINKS:
                    todo.append((b, i, None, rv["agg"]["adt"].rsplit("::", 1)[-1] + ".range", (rv, AGG_SINKS[rv["agg"]["adt"]])))
    seen_params = set()
    while todo:
        b, i, op, what, agg = todo.pop()
        if agg is not None:
            os_ = prov.rvalue_origins(b, agg[0], i, 0, set(), (agg[1],))
        else:
            os_ = prov.origins(b, op)
        n += 1
        per[b.path] = per.get(b.path, 0) + 1
        key = "range:%s:%s#%d" % (b.path, what, per[b.path])
        kinds = {}
        for o in os_:
            kinds[classify(prog, b, o)] = o
        bad = [k for k in kinds if k not in ("rowan", "stored", "param", "ctor")]
        ok = not bad
        detail = ", ".join(sorted(kinds))
        if ok and "ctor" in kinds:
            # a constructor is fine only inside the reviewed functions, with rowan operands
            if b.path in WHITELISTED_CTORS:
                o = kinds["ctor"]
                tt = b.term(o[2])
                opk = set()
                for a in tt["args"]:
                    for x in prov.origins(b, a):
                        opk.add(classify(prog, b, x))
                ok = opk <= {"rowan", "stored", "param"}
                detail += " (operands: %s)" % sorted(opk)
            else:
                ok = False
                detail += " (TextRange built outside the reviewed constructors)"
        if ok and "param" in kinds:
            o = kinds["param"]
            if (b.path, o[1]) not in seen_params:
                seen_params.add((b.path, o[1]))
                for cb, ci, ct in prog.call_sites(lambda c: c == b.path):
                    if cb.crate == "ide.rlib" and o[1] - 1 < len(ct["args"]) and not cb.path.startswith("ide::tests"):
                        todo.append((cb, ci, ct["args"][o[1] - 1], what + " via " + b.path.rsplit("::", 1)[-1], None))
        ck.ob("R17.1", key, ok, "%s comes from: %s" % (what, detail),
              msg="%s: a %s is not a rowan range/offset, a stored range or a reviewed construction (%s) — it may lie outside "
                  "the text or split a character [%s]" % (b.path, what, detail, b.where(i)))
    ck.floor("R17.1", "range sinks", n, 40)

    # R17.1b: no offset arithmetic in ide (TextSize Add/Sub, usize<->TextSize conversions feeding ranges)
    ar = []
    for b in prog.bodies.values():
        if b.crate != "ide.rlib" or b.path.startswith("ide::tests") or b.path.startswith("ide::line_index"):
            continue
        for i, t in b.calls():
            c = Body.callee(t) or ""
            if re.search(r"<text_size::TextSize as std::ops::(Add|Sub|AddAssign|SubAssign)|TextSize::(checked_add|checked_sub|new|of)$|"
                         r"TextRange::(at|cover|cover_offset|intersect)$", c) or \
                    (re.search(r"(From|Into|TryFrom|TryInto)", c) and any("TextSize" in (ga.get("ty") or "") for ga in (t["f"].get("args") or []))
                     and any((ga.get("ty") or "") in ("usize", "u32") for ga in (t["f"].get("args") or []))):
                ar.append((b.path, c, b.where(i)))
    ck.ob("R17.1", "no-offset-arithmetic", not ar, "no TextSize arithmetic / integer conversion in crate ide (outside line_index)",
          msg="offset arithmetic in ide: %s" % ar[:4])

    # the reviewed constructor: start of the node, end of one of its own tokens
    rb = prog.body("ide::utils::range_excluding_trivia")
    ck.anchor(rb is not None, "range_excluding_trivia not found")
    ctors = [(i, t) for i, t in rb.calls() if RANGE_CTOR.search(Body.callee(t) or "")]
    ok = bool(ctors)
    for i, t in ctors:
        name = Body.callee(t).rsplit("::", 1)[-1]
        if name == "new":
            so = prov.origins(rb, t["args"][0])
            eo = prov.origins(rb, t["args"][1])
            s_ok = all(x[0] == "call" and x[1].endswith("TextRange::start") for x in so)
            e_ok = all(x[0] == "call" and x[1].endswith("TextRange::end") for x in eo)
            # end comes from a token reached from the node's last_token via prev_token
            ok = ok and s_ok and e_ok
        elif name == "empty":
            so = prov.origins(rb, t["args"][0])
            ok = ok and all(x[0] == "call" and x[1].endswith("TextRange::start") for x in so)
        else:
            ok = False
    toks = [Body.callee(t) or "" for _, t in rb.calls()]
    ok = ok and any(c.endswith("last_token") for c in toks) and any(c.endswith("prev_token") for c in toks) and \
        any(c.endswith("SyntaxKind::is_trivia") for c in toks)
    ck.ob("R17.1", "range_excluding_trivia", ok,
          "TextRange::new(node.start, token.end) for a non-trivia token found by walking back from the node's last token",
          msg="range_excluding_trivia no longer builds its range from the node's start and the end of a token of that node "
              "(offset arithmetic or another construction can leave the text or split a character)")

    ck.rule("R17.2", "ranges are paired with the file being walked")
    file_stack_rule(ck, prog, "R17.2")
    # ranges are offsets into the tree's text: the tree is built over the whole document text
    from .c01 import whole_text
    ck.rule("R17.4", "the syntax tree is built over the whole text of the document (no prefix stripped before lexing)")
    whole_text(ck, prog, "R17.4")
    # FileRange::new(file, ..) in the indexer: file is current_file_id()
    nf = 0
    for b, i, t in prog.call_sites(lambda c: c == "ide::file_system::FileRange::new"):
        if b.crate != "ide.rlib" or not (b.path.startswith("ide::index") or " as ide::index::Indexable>" in b.path):
            continue
        nf += 1
        fo = prov.origins(b, t["args"][0])
        ck.ob("R17.2", "file:%s#%d" % (b.path, nf), all(x[0] == "call" and x[1].endswith("current_file_id") for x in fo),
              "FileRange file = current_file_id()",
              msg="%s pairs a range with a file other than the one on top of the include stack (%s)" % (b.path, sorted(fo)))
    ck.floor("R17.2", "FileRange constructions in the indexer", nf, 4)

    sub = c02_sub(ck)
    c02.rule_r026(sub, prog)


def c02_sub(ck):
    from .c01 import _Sub
    return _Sub(ck, "R17.3")
