"""C18 Outline and folding mirror the declaration structure — structural clauses."""
import re

from .. import cfg, prov, paths, brackets
from ..facts import Body, op_local
from .c16 import enumeration_style

SYNTAXKIND = "syntax::syntax_kind::SyntaxKind"
FOLD_KINDS = {"Class", "Def", "Defset", "Foreach", "If", "Let", "MultiClass"}


def run(ck, prog):
    ck.explanation = (
        "Decided on the MIR: (R18.1) folding: the node kinds selected in folding_range::exec are exactly "
        "{Class, Def, Defset, Foreach, If, Let, MultiClass}, found by enumerating every descendant of the root, "
        "and each range is range_excluding_trivia of the matched node itself; (R18.2) outline: "
        "symbol_to_document_symbol produces an entry for classes, defs, defsets and multiclasses and nothing "
        "else, a class lists template arguments then fields from the record's ordered maps, a defset lists its "
        "def_list; every symbol of the file's list is offered to it; (R18.3) registration: add_record is told "
        "'global' exactly when no defset encloses the def (current_defset_id searches the whole scope stack), "
        "defs inside a defset are appended to that defset; classes, defsets and multiclasses always register; "
        "(R18.4) a declaration is registered before anything that can fail for a valid program (its value's "
        "type being unknown) can return from the indexer; (R18.5) the scope stack current_defset_id reads is balanced "
        "on every feasible path of every indexer function and its primitives are a stack (shared with C05): a scope "
        "left behind would make later defs members of a defset that is already closed. Not decided: exactness and source order of the "
        "outline for every program (needs an oracle outline).")
    ck.trusted = ["rowan descendants() enumerates all nodes in source order", "indexmap keeps insertion order"]
    for r, t in (("R18.1", "folding kinds, enumeration and ranges"), ("R18.2", "outline arms and children"),
                 ("R18.3", "registration of global symbols and defset members"),
                 ("R18.4", "declarations are registered independently of their value's type")):
        ck.rule(r, t)

    # ---- R18.1 -------------------------------------------------------------------
    fb = prog.body("ide::handlers::folding_range::exec")
    ck.anchor(fb is not None, "folding_range::exec not found")
    style = enumeration_style(prog, fb)
    ck.ob("R18.1", "enumeration", style == "all-nodes", "folding ranges are computed for every descendant of the root",
          msg="folding_range::exec no longer enumerates every node of the tree (%s): statements in some positions "
              "(e.g. an else branch) get no folding range" % style)
    sk = {v["discr"]: v["name"] for v in prog.adts[SYNTAXKIND]["variants"]}
    kinds = None
    per_kind_ok = True
    # exec, its closures and the private helpers of the module it delegates to
    module = fb.path.rsplit("::", 1)[0] + "::"
    members = [b for p, b in sorted(prog.bodies.items()) if p.startswith(module)]
    n_ranges = 0
    for c in members:
        for i, bb in enumerate(c.blocks):
            t = bb["term"]
            if t["k"] == "switch":
                sc = paths.switch_cond(c, prog, i)
                if sc.kind == "discr" and sc.data[1] == SYNTAXKIND and len(t["arms"]) >= 3:
                    kinds = (kinds or set()) | {sk.get(a[0]) for a in t["arms"]}
        # the range is range_excluding_trivia(&node) of the same node whose kind is tested
        kos = [prov.origins(c, tt["args"][0]) for _, tt in c.calls() if (Body.callee(tt) or "").endswith("SyntaxNode::<L>::kind")]
        for _, tt in c.calls():
            if Body.callee(tt) == "ide::utils::range_excluding_trivia":
                n_ranges += 1
                ro = prov.origins(c, tt["args"][0])
                if kos:
                    per_kind_ok = per_kind_ok and any(ro == ko for ko in kos)
                else:
                    per_kind_ok = per_kind_ok and bool(ro) and all(x[0] == "arg" for x in ro)
    per_kind_ok = per_kind_ok and n_ranges >= 1
    ck.ob("R18.1", "kinds", kinds == FOLD_KINDS, "folding kinds = %s" % sorted(kinds or []),
          msg="folding kinds are %s, expected %s" % (sorted(kinds or []), sorted(FOLD_KINDS)))
    ck.ob("R18.1", "range-of-node", per_kind_ok, "range_excluding_trivia is applied to the matched node itself",
          msg="the folding range is not computed from the node whose kind was matched")
    adapt = [Body.callee(t) for _, t in fb.calls() if re.search(r"Iterator::(take|skip|step_by|take_while|skip_while|filter)$", Body.callee(t) or "")]
    ck.ob("R18.1", "no-truncation", not adapt, "no truncating adaptor on the folding iterator", nontrivial=False,
          msg="folding_range::exec truncates or filters its node iterator: %s" % adapt)

    # ---- R18.2 -------------------------------------------------------------------
    sb = prog.body("ide::handlers::document_symbol::symbol_to_document_symbol")
    ck.anchor(sb is not None, "symbol_to_document_symbol not found")
    SYMBOL = "ide::symbol_map::symbol::Symbol<'_>"
    sym_adt = [a for a in prog.adts if a.startswith("ide::symbol_map::symbol::Symbol") and "Mut" not in a and "Id" not in a]
    ck.anchor(sym_adt, "Symbol enum not found")
    variants = {v["discr"]: v["name"] for v in prog.adts[sym_adt[0]]["variants"]}
    produced = {}
    kinds_made = {}
    dmod = sb.path.rsplit("::", 1)[0] + "::"

    def helper_closure(start_callees):
        """module-local helper functions reachable from the given callees (the arms may be extracted into helpers)"""
        seen = set()
        st = [c for c in start_callees if c and c.startswith(dmod) and c != sb.path]
        while st:
            c = st.pop()
            if c in seen or prog.body(c) is None:
                continue
            seen.add(c)
            for hb in [prog.body(c)] + prog.closures_of(c):
                for _, t in hb.calls():
                    cc = Body.callee(t) or ""
                    if cc.startswith(dmod) and cc not in seen and cc != sb.path:
                        st.append(cc)
        return seen

    def kinds_in(fn):
        out = []
        for hb in [prog.body(fn)] + prog.closures_of(fn):
            for bb in hb.blocks:
                for st_ in bb["s"]:
                    rv = st_.get("rv") or {}
                    if isinstance(rv.get("agg"), dict) and rv["agg"].get("adt", "").endswith("DocumentSymbolKind"):
                        out.append(rv["agg"]["variant"])
        return out
    for pth in paths.enum_paths(sb, prog, limit=20000):
        if pth.end != "return":
            continue
        chosen = None
        for e in pth.events:
            if e[0] == "branch" and e[2].kind == "discr" and "symbol::Symbol" in e[2].data[1]:
                if not isinstance(e[3], tuple):
                    chosen = variants.get(e[3])
                else:
                    chosen = chosen or "<other>"
        some = pth.ret is not None and pth.ret[0] == "rv" and isinstance(pth.ret[1].get("agg"), dict) and \
            pth.ret[1]["agg"].get("variant") == "Some"
        dk = [e[2]["rv"]["agg"]["variant"] for e in pth.events if e[0] == "assign" and isinstance(e[2]["rv"].get("agg"), dict)
              and e[2]["rv"]["agg"].get("adt", "").endswith("DocumentSymbolKind")]
        if chosen:
            produced.setdefault(chosen, set()).add(some)
            if some:
                kinds_made.setdefault(chosen, set()).update(dk[-1:])
                for h in helper_closure([Body.callee(e[2]) for e in pth.events if e[0] == "call"]):
                    kinds_made[chosen].update(kinds_in(h)[:1] if False else kinds_in(h))
    want_some = {"Record", "Defset", "Multiclass"}
    for v in variants.values():
        got = produced.get(v, produced.get("<other>", set()))
        if v in want_some:
            ck.ob("R18.2", "arm:%s" % v, True in got, "%s symbols produce an outline entry (%s)" % (v, sorted(kinds_made.get(v, []))),
                  msg="symbol_to_document_symbol produces no outline entry for %s symbols" % v)
        else:
            ck.ob("R18.2", "arm:%s" % v, got <= {False}, "%s symbols are not listed at top level" % v,
                  msg="symbol_to_document_symbol lists %s symbols in the outline" % v)
    ck.ob("R18.2", "record-kinds", kinds_made.get("Record", set()) >= {"Class", "Def"},
          "records yield Class and Def entries", msg="record symbols no longer yield both Class and Def outline entries: %s" % kinds_made.get("Record"))
    calls = [Body.callee(t) or "" for _, t in sb.calls()]
    for h in helper_closure(list(calls)):
        for hb in [prog.body(h)] + prog.closures_of(h):
            calls += [Body.callee(t) or "" for _, t in hb.calls()]
    ck.ob("R18.2", "children", any(c.endswith("Record::iter_template_arg") for c in calls) and any(c.endswith("Record::iter_field") for c in calls)
          and any("chain" in c for c in calls),
          "class children = template arguments chained with fields",
          msg="class outline children are no longer template arguments followed by fields")
    eb = prog.body("ide::handlers::document_symbol::exec")
    ck.anchor(eb is not None, "document_symbol::exec not found")
    it = [t for _, t in eb.calls() if (Body.callee(t) or "").endswith("SymbolMap::iter_symbols_in_file")]
    okf = len(it) == 1 and all(x[0] == "arg" for x in prov.origins(eb, it[0]["args"][1]))
    pushes = cfg.blocks_calling(eb, lambda c: c == "std::vec::Vec::<T, A>::push")
    conv = cfg.blocks_calling(eb, lambda c: c.endswith("symbol_to_document_symbol"))
    nexts = [i for i, t in eb.calls() if re.search(r"Iterator>::next$", Body.callee(t) or "")]
    skip = any(cfg.path_exists(eb, n, lambda x: x == n, avoid=conv) is not None for n in nexts)
    closure_form = False
    if not conv:
        # iterator form: iter.filter_map(|id| symbol_to_document_symbol(.., symbol(id))).collect()
        for i, t in eb.calls():
            if not re.search(r"Iterator::(filter_map|map|flat_map)$", Body.callee(t) or ""):
                continue
            if not any(x[0] == "call" and x[1].endswith("SymbolMap::iter_symbols_in_file") for x in prov.origins(eb, t["args"][0])):
                continue
            for ga in (t["f"].get("args") or []):
                mb = prog.body(ga.get("closure")) if isinstance(ga, dict) and ga.get("closure") else None
                if mb is None:
                    continue
                cv = cfg.blocks_calling(mb, lambda c: c.endswith("symbol_to_document_symbol"))
                if cv and cfg.path_exists(mb, 0, lambda x: mb.term(x)["k"] == "return", avoid=cv, include_src=True) is None:
                    closure_form = True
    if closure_form:
        conv, skip = {-1}, False
    ck.ob("R18.2", "all-symbols-offered", okf and not skip and bool(conv),
          "every symbol of the requested file is passed to symbol_to_document_symbol",
          msg="document_symbol::exec does not offer every symbol of the file's list to the outline builder")

    # ---- R18.3 -------------------------------------------------------------------
    for fn, adder in (("<syntax::ast::Def as ide::index::Indexable>::index", "SymbolMap::add_record"),
                      ("<syntax::ast::Defm as ide::index::Indexable>::index", "SymbolMap::add_defm")):
        b = prog.body(fn)
        ck.anchor(b is not None, fn + " not found")
        ok = False
        for i, t in b.calls():
            if (Body.callee(t) or "").endswith(adder):
                go = prov.origins(b, t["args"][2])
                ok = all(x[0] == "call" and x[1].endswith("Option::<T>::is_none") for x in go)
                if ok:
                    for x in go:
                        so = prov.origins(b, b.term(x[2])["args"][0])
                        ok = ok and all(y[0] == "call" and y[1].endswith("Scopes::current_defset_id") for y in so)
        ck.ob("R18.3", "is-global:%s" % fn, ok, "is_global = current_defset_id().is_none()",
              msg="%s no longer registers the symbol as global exactly when no defset encloses it" % fn)
    db = prog.body("<syntax::ast::Def as ide::index::Indexable>::index")
    adds = [t for _, t in db.calls() if (Body.callee(t) or "").endswith("Defset::add_def")]
    ck.ob("R18.3", "defset-member", len(adds) == 1, "a def inside a defset is appended to that defset",
          msg="Def::index no longer appends a def declared inside a defset to the defset's def list")
    # current_*_id search the whole stack
    for acc in ("current_defset_id", "current_record_id", "current_multiclass_id", "current_defm_id"):
        b = prog.body("ide::index::scope::Scopes::" + acc)
        ck.anchor(b is not None, acc + " not found")
        cs = [Body.callee(t) or "" for _, t in b.calls()]
        ok = any(c.endswith("::iter") for c in cs) and any(c.endswith("Iterator::rev") for c in cs) and any(c.endswith("find_map") for c in cs) \
            and not any(c.endswith("::last") or c.endswith("::first") for c in cs)
        ck.ob("R18.3", "whole-stack:%s" % acc, ok, "%s searches every enclosing scope, innermost first" % acc,
              msg="Scopes::%s no longer searches the whole scope stack (a def nested in foreach/let inside a defset would "
                  "lose its defset)" % acc)
    for fn, adder in (("<syntax::ast::Class as ide::index::Indexable>::index", "SymbolMap::add_record"),
                      ("<syntax::ast::Defset as ide::index::Indexable>::index", "SymbolMap::add_defset"),
                      ("<syntax::ast::MultiClass as ide::index::Indexable>::index", "SymbolMap::add_multiclass")):
        b = prog.body(fn)
        ck.anchor(b is not None, fn + " not found")
        ok = any((Body.callee(t) or "").endswith(adder) for _, t in b.calls())
        if adder.endswith("add_record"):
            for i, t in b.calls():
                if (Body.callee(t) or "").endswith(adder):
                    c = (t["args"][2].get("const") or {})
                    ok = ok and c.get("val") == "true"
        ck.ob("R18.3", "registers:%s" % fn, ok, "%s always registers through %s" % (fn.split(" as ")[0][1:], adder),
              msg="%s no longer registers its symbol as a global outline entry" % fn)
    for fn in ("ide::symbol_map::SymbolMap::add_record", "ide::symbol_map::SymbolMap::add_defset", "ide::symbol_map::SymbolMap::add_multiclass"):
        b = prog.body(fn)
        ck.anchor(b is not None, fn + " not found")
        lists = [t for _, t in b.calls() if re.search(r"Vec::<T, A>::push$", Body.callee(t) or "")]
        ck.ob("R18.3", "listed:%s" % fn, bool(lists), "%s appends to the per-file symbol list" % fn.rsplit("::", 1)[-1],
              msg="%s no longer appends to the per-file symbol list" % fn)

    # ---- R18.4 -------------------------------------------------------------------
    rule_registration_before_value(ck, prog, "R18.4")
    # ---- R18.5 (shared with C05) ---------------------------------------------------
    from .c05 import scope_stack_rule
    ck.rule("R18.5", "the scope stack that decides top-level / defset membership is balanced on every feasible path (shared with C05)")
    scope_stack_rule(ck, prog, "R18.5")


REGISTER = re.compile(r"SymbolMap::add_(record|record_field|template_argument|variable|defset|multiclass|defm)$|"
                      r"Scopes::add_variable$|Record::add_(record_field|template_arg)$")


def rule_registration_before_value(ck, prog, rule):
    """In every Indexable impl that registers a declaration: an early exit whose cause is that a *value* has no
    known type (the Option result of some Indexable::index on a Value/initialiser) must not bypass the
    registration - untyped values are legal (e.g. !cond), so the declaration would silently disappear."""
    n = 0
    for b in prog.bodies.values():
        if b.crate != "ide.rlib" or b.impl_trait != "ide::index::Indexable" or b.parent:
            continue
        regs = cfg.blocks_calling(b, lambda c: bool(REGISTER.search(c)))
        if not regs:
            continue
        for t in brackets.option_tests(b, prog):
            src = t["src_callee"] or ""
            m = re.match(r"^<syntax::ast::(\w+) as ide::index::Indexable>::index$", src)
            if not m or m.group(1) not in ("Value", "InnerValue", "SimpleValue", "ForeachIteratorInit"):
                continue
            n += 1
            # registrations reachable from the Some edge but not yet performed before the test
            dom = cfg.dominators(b)
            before = {r for r in regs if r in dom.get(t["bb"], ())}
            after = {r for r in regs if r in b.reachable(t["some_target"])} - before
            none_reach = b.reachable(t["none_target"])
            skipped = {r for r in after if r not in none_reach}
            names = sorted({(Body.callee(b.term(r)) or "").rsplit("::", 1)[-1] for r in skipped})
            ck.ob(rule, "decl-before-value:%s:%s#%d" % (b.path, m.group(1), n), not skipped,
                  "registration does not depend on the type of the %s" % m.group(1),
                  msg="%s: when the %s has no inferable type (legal, e.g. `!cond(...)` or a reference to a class) the function "
                      "returns before %s — the declaration is never registered, so its uses are 'not found' and it is missing "
                      "from outline/go-to-definition" % (b.path, m.group(1), ", ".join(names)))
    ck.floor(rule, "value-type tests in declaring indexers", n, 2)
