"""C04 Grammar conformance: the documented grammar and the parser's error-free language, decided as an inclusion of
regular region languages in both directions, plus reachability of every constituent through the typed accessors."""
import json
import os

from .. import ast_facts, automata as fa, grammar_cmp as gc, grammar_sim as gs
from ..report import VERIF

HINT = os.path.join(VERIF, "tdq", "c04_cut_hint.json")
SYNTAXKIND = "syntax::syntax_kind::SyntaxKind"


def render_sym(cmp, side, x):
    if x is None:
        return "<end>"
    if isinstance(x, str):
        return x
    k, f = x
    if isinstance(f, str):
        return "%s[%s]" % (k, f)
    fs = set(f)
    allf = set(cmp.first.get(side, {}).get(k, ()))
    if fs == allf:
        return "%s[*]" % k
    parts = []
    if cmp.model.bang and cmp.model.bang <= fs:
        parts.append("BANGOP")
        fs = fs - cmp.model.bang
    elif cmp.model.bang and len(fs & cmp.model.bang) > 8:
        missing = sorted(cmp.model.bang - fs)
        parts.append("BANGOP-except(%s)" % "|".join(missing))
        fs = fs - cmp.model.bang
    parts += sorted(fs)
    return "%s[%s]" % (k, "|".join(parts))


def render_prefix_sym(cmp, x):
    # prefix symbols are one representative path: name bang operators and constituents generically so that the
    # key does not depend on which representative the search met first
    if isinstance(x, str):
        return "BANGOP" if x in cmp.model.bang else x
    return x[0]


def render(cmp, side, w, sy):
    return "%s . %s" % (" ".join(render_prefix_sym(cmp, x) for x in w), render_sym(cmp, side, sy))


def max_count(d, pred, cap=3):
    """largest number of symbols satisfying pred on an accepted word of DFA d, capped"""
    best = {}
    st = [(d.start, 0)]
    live = d.live()
    res = 0
    while st:
        q, n = st.pop()
        if best.get(q, -1) >= n:
            continue
        best[q] = n
        if q in d.acc:
            res = max(res, n)
        for (sy, q2) in d.out(q):
            if q2 in live:
                m = min(cap, n + (1 if pred(sy) else 0))
                if best.get(q2, -1) < m:
                    st.append((q2, m))
    return res


def run(ck, prog):
    ck.explanation = (
        "Decided from the MIR of the recursive-descent parser and the text of the documented grammar, without "
        "running either. (1) The parser is abstractly interpreted (tdq.parser_ai: look-ahead sets, error flag, node "
        "stack; only the token-stream and tree-builder leaf calls are built in) and the explored graphs are turned, "
        "per node kind and calling context, into a finite automaton of what the parser can put directly inside such "
        "a node without recording an error: tokens, non-empty child nodes, and the assertions it makes about the next "
        "token. (2) syntax.md plus the `// Rule ::=` comments are parsed into one automaton per rule. (3) For a set C "
        "of node kinds kept as opaque symbols (refined by their first token, and constraining what may follow them) "
        "and every other kind substituted by its own language, the two automata of every kind in C are compared "
        "both ways (documented ⊆ parsed; parsed ⊆ documented plus a trailing separator before a closing bracket). "
        "C always contains the root and cuts every cycle, so zero differences means the token languages are equal "
        "by induction on nesting depth; a difference is reported with the shortest token/constituent prefix at "
        "which one side can continue and the other cannot. (4) Every child node kind that can occur in a node is "
        "matched against the typed accessors of that node's ast type (kind and multiplicity). Not decided: that the "
        "real-world LLVM .td files parse (no such corpus is part of the tree); sentences whose acceptance depends "
        "on more than the constituents' first tokens and stop-before sets (checked one nesting level deep in the "
        "thorough tier).")
    ck.trusted = ["rowan GreenNodeBuilder start_node/start_node_at/finish_node semantics", "lexer token kinds (C14)"]
    for r, t in (("R04.0", "the parser model is complete: no unsupported construct, no exploration cut short, instance floors"),
                 ("R04.1", "every documented continuation is accepted by the parser without an error"),
                 ("R04.2", "every continuation the parser accepts without an error is documented (trailing separator allowed)"),
                 ("R04.3", "every child node the parser can put inside a node is reachable through a typed accessor of that node, "
                           "as often as it can occur"),
                 ("R04.5", "token level, thorough tier: every token string within the nesting bound is accepted by both models or by "
                           "neither, whatever the parse tree (parsed-only decided against the documented language plus a trailing "
                           "separator before a closing bracket)"),
                 ("R04.4", "documented rules and node kinds correspond (every documented rule name that is a node kind is built; "
                           "every node kind built is documented)")):
        ck.rule(r, t)

    cmp = gc.Comparison(prog)
    m = cmp.model
    # ---- R04.0 ---------------------------------------------------------------------------------
    ck.ob("R04.0", "unsupported", not m.unsupported, "parser abstract interpretation met no unsupported construct",
          msg="parser model incomplete (fail closed): unsupported constructs %s" % sorted(map(str, m.unsupported))[:5])
    ck.ob("R04.0", "model-problems", not m.problems and not cmp.problems,
          "all region explorations completed; every documented terminal and rule name resolved",
          msg="grammar model problems (fail closed): %s" % (m.problems + cmp.problems)[:6])
    ck.floor("R04.0", "node kinds built by the parser", len(cmp.kinds), 60)
    ck.floor("R04.0", "node regions (kind x calling context)", len(cmp.code_region), 110)
    ck.floor("R04.0", "documented rules", len(cmp.rules), 68)
    ck.floor("R04.0", "documented rules that are node kinds", len(cmp.shared), 58)
    ck.floor("R04.0", "explored parser configurations", sum(cmp.code_states.values()), 150000)
    for note in cmp.doc.notes:
        ck.info(note)

    # ---- R04.4 ---------------------------------------------------------------------------------
    for k in sorted(cmp.code_only):
        ck.ob("R04.4", "undocumented-node:" + k, k == "Error", "node kind %s is built by the parser" % k,
              msg="the parser builds %s nodes but no documented rule has that name" % k)
    # ---- R04.1 / R04.2 -------------------------------------------------------------------------
    hint = []
    if os.path.exists(HINT):
        try:
            hint = json.load(open(HINT)).get("transparent", [])
        except Exception:
            hint = []
    C, res, log = cmp.solve(hint)
    ck.count(cmp.evaluations)
    ck.extra["c04"] = {
        "opaque_kinds": sorted(C), "transparent_kinds": sorted(cmp.shared - C),
        "search": [list(x) for x in log], "comparisons": cmp.evaluations,
        "model_seconds": round(m.wall, 1), "region_seconds": round(cmp.wall, 1),
        "contexts": m.contexts, "regions": len(cmp.code_region),
        "configurations": sum(cmp.code_states.values()),
        "eof_ok": sorted("%s/%d" % kv for kv in cmp.eof_ok),
    }
    ck.ob("R04.0", "root-compared", gc.ROOT in C, "the root rule %s is compared" % gc.ROOT,
          msg="the root rule is not among the compared kinds (fail closed)")
    for k in sorted(C):
        cd, dc, A, B = res[k]
        if not dc:
            ck.ob("R04.1", "kind:" + k, True, "every documented continuation of %s is parsed without error" % k)
        for (w, sy) in dc:
            r = render(cmp, "doc", w, sy)
            ck.ob("R04.1", "%s:%s" % (k, r), False,
                  msg="inside %s the documented grammar allows `%s` (prefix . next) but the parser cannot continue there "
                      "without a syntax error" % (k, r), extra={"kind": k, "prefix": [str(x) for x in w], "next": str(sy)})
        if not cd:
            ck.ob("R04.2", "kind:" + k, True, "every error-free continuation of %s is documented" % k)
        for (w, sy) in cd:
            r = render(cmp, "code", w, sy)
            ck.ob("R04.2", "%s:%s" % (k, r), False,
                  msg="inside %s the parser accepts `%s` (prefix . next) without a syntax error but the documented grammar "
                      "does not allow it" % (k, r), extra={"kind": k, "prefix": [str(x) for x in w], "next": str(sy)})
    ck.floor("R04.1", "compared node kinds", len(C), 40)

    # ---- thorough: one level of nesting unrolled -----------------------------------------------
    if ck.tier == "thorough":
        unrolled(ck, cmp, C, res)
        token_level(ck, cmp, C)

    # ---- R04.3 ---------------------------------------------------------------------------------
    types = ast_facts.ast_types(prog)
    acc = ast_facts.accessors(prog)
    ck.floor("R04.3", "ast node types", len(types), 60)
    ck.floor("R04.3", "typed accessors", len(acc), 84)
    by_kind = {}
    for ty, info in types.items():
        if not info["is_enum"]:
            for k in info["kinds"]:
                by_kind.setdefault(k, []).append(ty)
    n_children = 0
    for k in sorted(cmp.kinds):
        regs = [d for (kk, vi), d in cmp.code_region.items() if kk == k]
        childkinds = set()
        for d in regs:
            childkinds |= {x[0] for x in d.symbols() if isinstance(x, tuple) and x[0] in cmp.kinds}
        if not childkinds:
            continue
        tys = by_kind.get(k, [])
        if k == "Error":
            continue
        if not tys:
            ck.ob("R04.3", "no-ast-type:" + k, False, msg="node kind %s has child nodes %s but no typed ast wrapper"
                  % (k, sorted(childkinds)))
            continue
        accs = [a for a in acc.values() if a["self"] in tys]
        for c2 in sorted(childkinds):
            n_children += 1
            cover = [a for a in accs if c2 in ast_facts.kinds_of(types, a["target"])]
            if not cover:
                ck.ob("R04.3", "unreachable:%s>%s" % (k, c2), False,
                      msg="the parser can put a %s node directly inside a %s node, but no typed accessor of %s selects it"
                          % (c2, k, "/".join(t.rsplit("::", 1)[-1] for t in tys)))
                continue
            # multiplicity: how many nodes of the accessor's target kinds can occur
            ok = True
            why = []
            for tgt in sorted({a["target"] for a in cover}):
                tk = ast_facts.kinds_of(types, tgt)
                mx = max(max_count(d, lambda sy: isinstance(sy, tuple) and sy[0] in tk) for d in regs)
                group = [a for a in accs if a["target"] == tgt]
                if any(a["mode"] == "children" for a in group):
                    reach = 99
                else:
                    idx = {0 if a["mode"] == "child" else a["index"] for a in group}
                    reach = 0
                    while reach in idx:
                        reach += 1
                why.append("%s: up to %s occurrences, accessors reach %s" % (tgt.rsplit("::", 1)[-1], mx if mx < 3 else "3+", reach if reach < 99 else "all"))
                if reach >= mx:
                    break
            else:
                ok = False
            ck.ob("R04.3", "reach:%s>%s" % (k, c2), ok, "; ".join(why),
                  msg="a %s node can hold more %s children than the typed accessors of %s reach (%s)" % (k, c2, k, "; ".join(why)))
    ck.floor("R04.3", "parent/child node kind pairs", n_children, 90)


def unrolled(ck, cmp, C, res):
    """Context dependence: for every compared kind k and opaque child kind x, k's language with x substituted
    context-free against k's language with x's region written out in place (assertions about the next token cross
    the boundary). A phrase that is an x on its own but is rejected as the x of this k because of the token that
    follows (a name-mode value before `{`) is hidden by the opaque symbol and shows here."""
    cmp.compare_all(C)          # make the first/stop-before sets of C current
    found, n = cmp.context_dependence(C)
    ck.count(n)
    ck.extra["c04"]["context_dependence_comparisons"] = n
    seen = set()
    for (k, x, w, sy) in found:
        # Not reported as a violation: the same tokens may be accepted through another parse that is also a
        # documented derivation (`(op [1,2])` read as the slice `op[1,2]`), which symbols cannot tell apart.
        r = render(cmp, "code", w, sy)
        seen.add((k, x))
        ck.info("context dependence (not a verdict): inside %s the parse of %s depends on what follows it: `%s`" % (k, x, r))
    ck.ob("R04.1", "in-context:all", True, "%d (kind, child kind) pairs compared, %d with a context dependence" % (n, len(seen)))
    ck.floor("R04.1", "context-dependence comparisons", n, 80)


CODE_DEPTH, DOC_DEPTH = 16, 14


def token_level(ck, cmp, C):
    """R04.5: bounded exploration of the product of the two recursive transition networks on concrete token kinds
    (tdq.grammar_sim). Unlike R04.1/R04.2 it compares token strings, not parse trees: a phrase accepted through another
    derivation is accepted. Bound: call depth of the parser model / rule nesting of the documented grammar; string
    length is unbounded."""
    ex = gs.Explorer(cmp.model, cmp.rules, 10 ** 6, CODE_DEPTH, DOC_DEPTH)
    ck.ob("R04.0", "doc-rtn", not ex.doc.problems, "documented grammar read as a transition network without unresolved names",
          msg="documented grammar could not be read completely (fail closed): %s" % ex.doc.problems[:4])
    diffs = ex.run(limit_nodes=1500000)
    ck.count(ex.steps)
    ck.extra["c04"]["token_level"] = {"code_call_depth": CODE_DEPTH, "doc_rule_depth": DOC_DEPTH, "product_states": ex.nodes,
                                      "token_steps": ex.steps, "states_cut_at_bound": ex.cut_nodes,
                                      "raw_differences": len(diffs)}
    ck.ob("R04.0", "token-level-complete", not ex.truncated, "exploration finished within the state limit (%d states)" % ex.nodes,
          msg="token-level exploration hit the state limit (fail closed)")
    ck.floor("R04.5", "product states explored", ex.nodes, 50000)
    def inner(stack):
        for k in reversed(stack):
            if k in C:
                return k
        return "?"
    first = {}
    count = {}
    for x in diffs:
        # parsed-only: the node the parser put the undocumented token into; documented-only: the documented rule whose
        # terminal the token is, and the node the parser was in when it reported the error
        if x["direction"] == "code-only":
            k = (x["direction"], "-", inner(x["code_stack"]))
        else:
            k = (x["direction"], "|".join(x.get("doc_via", [])) or "?", inner(x["code_stack"]))
        first.setdefault(k, x)
        count[k] = count.get(k, 0) + 1
    for (direction, drule, kind), x in sorted(first.items()):
        sent = " ".join(x["prefix"] + ([x["token"]] if x["token"] != "<end>" else []) + x["completion"])
        at = "%s . %s" % (" ".join(x["prefix"][-3:]), x["token"])
        if direction == "code-only":
            msg = ("token level: the parser accepts `%s` without a syntax error but no derivation of the documented grammar "
                   "produces it (documented rule being matched: %s; node being parsed: %s; diverges at `%s`; %d such points)"
                   % (sent, drule, kind, at, count[(direction, drule, kind)]))
        else:
            msg = ("token level: the documented grammar derives `%s` but the parser reports a syntax error (documented rule: "
                   "%s; node being parsed: %s; diverges at `%s`; %d such points)" % (sent, drule, kind, at, count[(direction, drule, kind)]))
        ck.ob("R04.5", "%s:%s:%s" % (direction, drule, kind), False, msg=msg,
              extra={"sentence": sent, "prefix": x["prefix"], "token": x["token"], "doc_rules": x["doc_rules"]})
    ck.ob("R04.5", "explored", True, "%d product states, %d token steps, %d distinct divergence points"
          % (ex.nodes, ex.steps, len(first)))
