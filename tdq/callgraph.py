"""Whole-program call graph over the MIR facts of all workspace crates.

Edges: resolved static calls; trait-method calls that stay virtual/unresolved -> every impl of that
trait method in the workspace; functional arguments (closures / fn items handed to a generic callee)
-> an edge from the body that invokes the parameter (or from the caller for foreign callees);
closures handed to a thread-spawning API -> 'spawn' edges (a new thread role, not a call)."""
import re

from .facts import Body

SPAWN_APIS = (
    "tokio::task::spawn_blocking", "tokio::spawn", "tokio::task::spawn", "std::thread::spawn",
    "tokio::runtime::Handle::spawn_blocking", "tokio::runtime::Handle::spawn",
    "std::thread::Builder::spawn",
)
FN_TRAIT_CALLS = ("std::ops::FnOnce::call_once", "std::ops::FnMut::call_mut", "std::ops::Fn::call")


class Edge:
    __slots__ = ("kind", "target", "bb", "term")

    def __init__(self, kind, target, bb, term=None):
        self.kind = kind
        self.target = target
        self.bb = bb
        self.term = term

    def __repr__(self):
        return "Edge(%s,%s,bb%s)" % (self.kind, self.target, self.bb)


class CallGraph:
    def __init__(self, prog):
        self.prog = prog
        self.out = {p: [] for p in prog.bodies}
        self.trait_impls = {}     # trait item path -> [impl method body paths]
        for i in prog.impls:
            for it in i["items"]:
                ti = it.get("trait_item")
                if ti and it["path"] in prog.bodies:
                    self.trait_impls.setdefault(ti, []).append(it["path"])
        self.family = {}          # fn path -> [closure paths nested in it] (transitive)
        for p, b in prog.bodies.items():
            if b.parent:
                root = b.parent
                while prog.body(root) is not None and prog.body(root).parent:
                    root = prog.body(root).parent
                self.family.setdefault(root, []).append(p)
        self._build()
        self._in = None

    def _build(self):
        prog = self.prog
        for p, b in prog.bodies.items():
            for bb, t in b.calls():
                f = t["f"]
                callee = f.get("fn")
                if callee is None:
                    # call through a fn pointer / closure local: unknown target
                    self.out[p].append(Edge("indirect", None, bb, t))
                    continue
                how = f.get("how")
                if callee in prog.bodies and how not in ("virtual", "unresolved"):
                    self.out[p].append(Edge("call", callee, bb, t))
                elif how in ("virtual", "unresolved"):
                    decl = f.get("decl") or callee
                    if decl in FN_TRAIT_CALLS or callee in FN_TRAIT_CALLS:
                        self.out[p].append(Edge("fnparam", f["args"][0].get("ty") if f.get("args") else None, bb, t))
                    else:
                        impls = self.trait_impls.get(callee) or self.trait_impls.get(decl) or []
                        if impls:
                            for tgt in impls:
                                self.out[p].append(Edge("virtual", tgt, bb, t))
                        else:
                            self.out[p].append(Edge("ext", callee, bb, t))
                else:
                    self.out[p].append(Edge("ext", callee, bb, t))
                    if callee.startswith("salsa::"):
                        # salsa plumbing executes the query function of the query type it is instantiated with
                        for ga in f.get("args") or []:
                            q = "<%s as salsa::plumbing::QueryFunction>::execute" % ga.get("ty")
                            if q in prog.bodies:
                                self.out[p].append(Edge("call", q, bb, t))
                # functional arguments
                fargs = []
                for idx, ga in enumerate(f.get("args") or []):
                    if "closure" in ga:
                        fargs.append((idx, ga["closure"]))
                    elif "fn" in ga:
                        fargs.append((idx, ga["fn"]))
                for idx, tgt in fargs:
                    if tgt not in prog.bodies:
                        continue
                    if callee in SPAWN_APIS:
                        self.out[p].append(Edge("spawn", tgt, bb, t))
                        continue
                    g = prog.body(callee)
                    if g is not None and how not in ("virtual", "unresolved"):
                        pname = g.generics[idx] if idx < len(g.generics) else None
                        invokers = []
                        for member in [callee] + self.family.get(callee, []):
                            mb = prog.body(member)
                            for _, t2 in mb.calls():
                                f2 = t2["f"]
                                if f2.get("fn") in FN_TRAIT_CALLS and f2.get("args") and \
                                        f2["args"][0].get("ty") == pname:
                                    invokers.append(member)
                        if invokers:
                            for m in set(invokers):
                                self.out[m].append(Edge("funarg", tgt, None, t))
                        else:
                            self.out[callee].append(Edge("funarg", tgt, None, t))
                    else:
                        self.out[p].append(Edge("funarg", tgt, bb, t))
            # closures created but never passed as generic argument (stored, returned): be conservative
        # a closure constructed in a body and not otherwise connected: edge creator -> closure
        connected = set()
        for es in self.out.values():
            for e in es:
                if e.kind in ("funarg", "spawn") and e.target:
                    connected.add(e.target)
        for p, b in prog.bodies.items():
            if b.parent and p not in connected and b.parent in self.out:
                self.out[b.parent].append(Edge("funarg", p, None))

    # ------------------------------------------------------------------
    def callees(self, p, kinds=("call", "virtual", "funarg")):
        return [e for e in self.out.get(p, []) if e.kind in kinds and e.target in self.prog.bodies]

    def reachable(self, roots, kinds=("call", "virtual", "funarg"), stop=None):
        seen = set()
        st = list(roots)
        while st:
            p = st.pop()
            if p in seen or p not in self.out:
                continue
            if stop and stop(p):
                continue
            seen.add(p)
            for e in self.out[p]:
                if e.kind in kinds and e.target in self.prog.bodies and e.target not in seen:
                    st.append(e.target)
        return seen

    def callers(self, target):
        if self._in is None:
            self._in = {}
            for p, es in self.out.items():
                for e in es:
                    if e.target:
                        self._in.setdefault(e.target, []).append((p, e))
        return self._in.get(target, [])

    def ext_calls(self, p):
        """external callee paths called directly from body p (with block)"""
        return [(e.target, e.bb, e.term) for e in self.out.get(p, []) if e.kind == "ext"]

    def path(self, roots, target_pred, kinds=("call", "virtual", "funarg")):
        """shortest call chain from any root to a body satisfying target_pred (list of paths) or None"""
        from collections import deque
        prev = {}
        dq = deque()
        for r in roots:
            if r in self.out and r not in prev:
                prev[r] = None
                dq.append(r)
        while dq:
            p = dq.popleft()
            if target_pred(p):
                chain = [p]
                while prev[chain[-1]] is not None:
                    chain.append(prev[chain[-1]])
                return list(reversed(chain))
            for e in self.out[p]:
                if e.kind in kinds and e.target in self.out and e.target not in prev:
                    prev[e.target] = p
                    dq.append(e.target)
        return None


_cg = None


def callgraph(prog):
    global _cg
    if _cg is None or _cg.prog is not prog:
        _cg = CallGraph(prog)
    return _cg
