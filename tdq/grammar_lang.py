"""A5: regular languages of the parser (extracted from the recorded exploration graphs of the parser abstract
interpretation) and of the documented grammar, per cut symbol, and their comparison.

Alphabet: token kinds and cut node kinds. A cut node kind is a node kind through which all recursion of the
grammar passes (Value, ListType, the statement kinds); every other node is flattened into its parent, so the
comparison is about token sequences, not about tree shapes."""
import time
from collections import deque

from . import parser_ai, docgrammar, paths
from .parser_ai import SELF, UNK

PB = "syntax::parser::ParserBase::<T>::"
GRAMMAR_PREFIX = "syntax::grammar"


def is_grammar_fn(fn):
    return fn.startswith(GRAMMAR_PREFIX)


class CodeModel:
    """Recursive transition network of the parser: per grammar-function context a graph whose edges carry
    symbol words (tokens / open / close / cp / open_at), calls to other grammar contexts, or nothing."""

    def __init__(self, prog):
        self.prog = prog
        t0 = time.time()
        self.ai = parser_ai.analyse(prog)
        ai = self.ai
        # record graphs of all grammar-function contexts
        ai.recording = {}
        ai.rec_entry = {}
        ai._done_round = set()
        ctxs = [c for c in list(ai.memo) if is_grammar_fn(c[0])]
        for c in ctxs:
            ai._eval(c)
        self.graphs = ai.recording
        self.entry = ai.rec_entry
        ai.recording = None
        # word-mode interpreter for the ParserBase helper layer
        self.w = parser_ai.ParserAI(prog)
        self.w.wordmode = True
        self.w._done_round = set()
        self.word_memo = {}
        self.edges = {}      # ctx -> {vertex: [(kind, payload, dst)]}
        self.problems = []
        self._build()
        self.wall = time.time() - t0

    def prim_words(self, callee, k, flags, argvals):
        key = (callee, k, flags, argvals)
        if key not in self.word_memo:
            self.w.changed = False
            outs = self.w.summary(callee, frozenset([k]), flags, argvals)
            self.word_memo[key] = outs
        return self.word_memo[key]

    def _build(self):
        def mkey(ctx):
            return (ctx[0], None, ctx[2], ctx[3])

        def okey(oc):
            return (oc[1], oc[2], oc[3], oc[4], oc[7])
        self.mkey, self.okey = mkey, okey
        merged_entry = {}
        for ctx, ent in self.entry.items():
            merged_entry[mkey(ctx)] = ent
        self.entry = merged_entry
        guards = {}
        for ctx0, recs in self.graphs.items():
            ctx = mkey(ctx0)
            adj = self.edges.setdefault(ctx, {})
            for (v, lab, dst) in recs:
                if isinstance(dst, tuple) and dst and dst[0] == "RET":
                    dst = ("RET", okey(dst[1]))
                out = adj.setdefault(v, [])
                if lab is None:
                    if ("eps", None, dst) not in out:
                        out.append(("eps", None, dst))
                elif lab[0] == "guard":
                    g = guards.setdefault((ctx, v, dst), [set(), False])
                    g[0] |= set(lab[1])
                    g[1] = g[1] or lab[2]
                elif lab[0] == "bi":
                    _, name, kind, la, cpfn = lab
                    if name == "token":
                        nt = (la or frozenset()) - self.ai.trivia - {"Eof"}
                        if nt:
                            out.append(("word", (("t", frozenset(nt)),), dst))
                        else:
                            out.append(("eps", None, dst))
                    elif name == "start_node":
                        out.append(("word", (("open", kind),), dst))
                    elif name == "start_node_at":
                        out.append(("word", (("open_at", kind, cpfn),), dst))
                    elif name == "finish_node":
                        out.append(("word", (("close",),), dst))
                    elif name == "checkpoint":
                        out.append(("word", (("cp", cpfn),), dst))
                    else:
                        out.append(("eps", None, dst))
                elif lab[0] == "call":
                    _, callee, cctx, oc = lab
                    if oc[3]:
                        continue            # an error was recorded on this outcome: not part of the error-free language
                    if is_grammar_fn(callee):
                        item = ("call", (mkey(cctx), okey(oc)), dst)
                        if item not in out:
                            out.append(item)
                    else:
                        for k in cctx[1]:
                            for wo in self.prim_words(callee, k, cctx[2], cctx[3]):
                                if wo[3]:
                                    continue
                                if (wo[1], wo[2], wo[4], wo[7]) == (oc[1], oc[2], oc[4], oc[7]) and wo[5] == oc[5]:
                                    item = ("pword", (k, self.fix_word(wo[8], cctx, ctx0)), dst)
                                    if item not in out:
                                        out.append(item)
        self._add_guards(guards)

    def _add_guards(self, guards):
        for (ctx, v, dst), (kinds, refining) in guards.items():
            out = self.edges[ctx].setdefault(v, [])
            if refining:
                out.append(("guard", frozenset(kinds - self.ai.trivia), dst))
            elif ("eps", None, dst) not in out:
                out.append(("eps", None, dst))

    def fix_word(self, word, cctx, caller_ctx):
        """attach checkpoint identities: a cp taken through a helper belongs to the calling grammar function;
        an open_at names the function whose checkpoint it consumes (from the abstract cp value in the arguments)"""
        out = []
        for sym in word:
            if sym[0] == "cp":
                out.append(("cp", caller_ctx[0]))
            elif sym[0] == "open_at":
                cpfn = None
                for a in cctx[3]:
                    x = a
                    while x and x[0] == "refval":
                        x = x[1]
                    if x and x[0] == "cp":
                        cpfn = x[4]
                out.append(("open_at", sym[1], cpfn))
            else:
                out.append(sym)
        return tuple(out)

    # ---------------------------------------------------------------------------------------
    def open_sites(self, kind):
        """(ctx, vertex, edge index, position in word, via) for every place node `kind` is opened"""
        sites = []
        for ctx, adj in self.edges.items():
            for v, outs in adj.items():
                for ei, (k, payload, dst) in enumerate(outs):
                    if k not in ("word", "pword"):
                        continue
                    word = payload if k == "word" else payload[1]
                    for pos, sym in enumerate(word):
                        if sym[0] == "open" and sym[1] == kind:
                            sites.append((ctx, v, ei, pos, "open"))
        return sites

    def open_at_kinds(self):
        out = {}
        for ctx, adj in self.edges.items():
            for v, outs in adj.items():
                for (k, payload, dst) in outs:
                    if k in ("word", "pword"):
                        for sym in (payload if k == "word" else payload[1]):
                            if sym[0] == "open_at":
                                out.setdefault(sym[2], set()).add(sym[1])
        return out

    def fns_with_open_at(self):
        """cpfn -> set of grammar fns that (transitively) contain an open_at for that checkpoint"""
        direct = {}
        calls = {}
        for ctx, adj in self.edges.items():
            for v, outs in adj.items():
                for (k, payload, dst) in outs:
                    if k in ("word", "pword"):
                        for sym in (payload if k == "word" else payload[1]):
                            if sym[0] == "open_at":
                                direct.setdefault(sym[2], set()).add(ctx[0])
                    elif k == "call":
                        calls.setdefault(ctx[0], set()).add(payload[0][0])
        res = {}
        for cpfn, fns in direct.items():
            # functions reachable from cpfn ...
            reach = set()
            st = [cpfn]
            while st:
                f = st.pop()
                for g in calls.get(f, ()):
                    if g not in reach and g != cpfn:
                        reach.add(g)
                        st.append(g)
            # ... that can reach a function containing the open_at without entering cpfn again (a new activation
            # of cpfn takes its own checkpoint)
            s = set(x for x in fns if x in reach)
            changed = True
            while changed:
                changed = False
                for f in reach:
                    if f not in s and (calls.get(f, set()) - {cpfn}) & s:
                        s.add(f)
                        changed = True
            res[cpfn] = s - {cpfn}
        return res


def code_nfa(model, kind, variant=None):
    """NFA of the error-free region language of node `kind` over (token kinds ∪ node kinds): what the parser
    puts directly inside a `kind` node, a child node being one symbol (its kind) when it covers at least one token
    and nothing when it covers none.
    Configuration: (ctx, vertex, rest-of-word, edge dst, return stack, skip, pending wrap, cur)
      skip    = None at the top level of the region, else (depth, child kind, saw a token) inside a child node
      pending = a checkpoint guessed to become a wrapper node (start_node_at), or the region's own checkpoint
      cur     = the current token kind the path has committed to (None = unconstrained: a token was just consumed)."""
    at_kinds = model.open_at_kinds()
    has_at = model.fns_with_open_at()
    delta = {}
    ACC = ("ACC",)
    ACC_EOF = ("ACC", "eof")
    accepts = {ACC, ACC_EOF}
    eof_close = []       # (child symbol, configuration right after a child node closed with the input at its end)
    vid = model.variant_id
    starts = set()
    problems = []
    trivia = model.ai.trivia

    def succ(cfg):
        if cfg[0] == "A":
            return [(("^", cfg[1][7]), cfg[1])]
        ctx, v, rest, dst, rstack, skip, pending, cur = cfg
        out = []
        if rest:
            sym = rest[0]
            nrest = rest[1:]

            def go(**kw):
                c = dict(skip=skip, pending=pending, cur=cur)
                c.update(kw)
                return (ctx, v, nrest, dst, rstack, c["skip"], c["pending"], c["cur"])
            if sym[0] == "t":
                kinds = sym[1] if cur is None else (sym[1] & {cur})
                if skip is not None:
                    if kinds:
                        out.append((None, go(cur=None, skip=(skip[0], skip[1], True))))
                else:
                    for k in kinds:
                        out.append((k, go(cur=None)))
            elif sym[0] == "open":
                if skip is not None:
                    out.append((None, go(skip=(skip[0] + 1, skip[1], skip[2]))))
                else:
                    out.append(((("^", cur) if cur is not None else None), go(skip=(1, (sym[1], vid(sym[1], ctx)), False))))
            elif sym[0] == "close":
                if skip is not None:
                    if skip[0] == 1:
                        if pending is not None and pending[2] == "child":
                            pass        # the guessed wrapper would close before its start_node_at was seen: dead
                        else:
                            n = go(skip=None)
                            # back at the top level: what the child learnt about the next token is an assertion
                            # of this region too
                            out.append((skip[1] if skip[2] else None, ("A", n) if cur is not None else n))
                            if cur == "Eof":
                                eof_close.append((skip[1], norm(n)))
                    else:
                        out.append((None, go(skip=(skip[0] - 1, skip[1], skip[2]))))
                else:
                    if pending is None:
                        out.append((None, ACC_EOF if cur == "Eof" else ACC))
            elif sym[0] == "cp":
                cpfn = sym[1]
                out.append((None, go()))
                if pending is None and skip is None:
                    for k in sorted(at_kinds.get(cpfn, ())):
                        out.append(((("^", cur) if cur is not None else None),
                                    go(skip=(1, (k, vid(k, ctx)), False), pending=(cpfn, k, "child"))))
            elif sym[0] == "open_at":
                k, cpfn = sym[1], sym[2]
                if pending is not None and pending[0] == cpfn and pending[1] == k:
                    if (pending[2] == "self") == (skip is None):
                        out.append((None, go(pending=None)))
                elif skip is not None and (pending is None or pending[0] != cpfn):
                    out.append((None, go(skip=(skip[0] + 1, skip[1], skip[2]))))
            return out
        if isinstance(v, tuple) and v and v[0] == "RET":
            if rstack:
                (rctx, rdst, roc), rs2 = rstack[-1], rstack[:-1]
                if v[1] == roc:
                    out.append((None, (rctx, rdst, (), None, rs2, skip, pending, cur)))
            return out
        for (k, payload, d) in model.edges.get(ctx, {}).get(v, ()):
            if k == "eps":
                out.append((None, (ctx, d, (), None, rstack, skip, pending, cur)))
            elif k == "guard":
                if cur is not None:
                    if cur in payload:
                        out.append((None, (ctx, d, (), None, rstack, skip, pending, cur)))
                else:
                    for kk in payload:
                        out.append(((("^", kk) if skip is None else None), (ctx, d, (), None, rstack, skip, pending, kk)))
            elif k == "word":
                out.append((None, (ctx, v, payload, d, rstack, skip, pending, cur)))
            elif k == "pword":
                kk, word = payload
                if cur is not None and cur != kk:
                    continue
                if kk in trivia:
                    continue      # the parser never looks at a trivia token after the initial skip()
                # case split on the actual next token; recorded at the top level of the region as ('^', k)
                commit = ("^", kk) if (cur is None and skip is None) else None
                out.append((commit, (ctx, v, word, d, rstack, skip, pending, kk)))
            elif k == "call":
                cctx, oc = payload
                inline = skip is None or (pending is not None and cctx[0] in has_at.get(pending[0], ()))
                if inline:
                    if len(rstack) > 24:
                        problems.append("call depth exceeded while exploring %s" % kind)
                        continue
                    ent = model.entry.get(cctx)
                    if ent is None:
                        problems.append("no recorded graph for %s" % (cctx[0],))
                        continue
                    out.append((None, (cctx, ent, (), None, rstack + ((ctx, d, oc),), skip, pending, cur)))
                else:
                    # skipped callee: if it consumed input the current token is unknown afterwards
                    prog = bool(oc[1])
                    out.append((None, (ctx, d, (), None, rstack, (skip[0], skip[1], skip[2] or prog), pending,
                                       None if prog else cur)))
        return out

    def norm(cfg):
        if cfg[0] == "ACC":
            return cfg
        if cfg[0] == "A":
            return ("A", norm(cfg[1]))
        ctx, v, rest, dst, rstack, skip, pending, cur = cfg
        if not rest and dst is not None:
            return (ctx, dst, (), None, rstack, skip, pending, cur)
        return cfg

    init = []
    for ctx, adj in model.edges.items():
        if ctx[2][0]:
            continue         # is_after_error set: not reachable on an error-free parse
        if variant is not None and (ctx[0], ctx[3]) != variant:
            continue
        for v, outs in adj.items():
            for (k, payload, dst) in outs:
                if k in ("word", "pword"):
                    word = payload if k == "word" else payload[1]
                    cur0 = None if k == "word" else payload[0]
                    for pos, sym in enumerate(word):
                        if sym[0] == "open" and sym[1] == kind:
                            init.append((ctx, v, word[pos + 1:], dst, (), None, None, cur0))
                        if sym[0] == "cp" and kind in at_kinds.get(sym[1], ()):
                            init.append((ctx, v, word[pos + 1:], dst, (), None, (sym[1], kind, "self"), cur0))
    seen = set()
    dq = deque()
    START = ("START",)
    starts.add(START)
    for c in init:
        c = norm(c)
        delta.setdefault(START, []).append(((("^", c[7]) if c[7] is not None else None), c))
        if c not in seen:
            seen.add(c)
            dq.append(c)
    while dq:
        c = dq.popleft()
        if c[0] == "ACC":
            continue
        if len(seen) > 400000:
            problems.append("state explosion exploring %s" % kind)
            break
        for (sym, n) in succ(c):
            n = norm(n)
            delta.setdefault(c, []).append((sym, n))
            if n not in seen:
                seen.add(n)
                dq.append(n)
    # children after whose end-of-input close the region itself can still end without an error
    rev = {}
    for a, outs in delta.items():
        for (sym, b) in outs:
            if sym is None:
                rev.setdefault(b, []).append((sym, a))
    can = {ACC_EOF}
    st = [ACC_EOF]
    while st:
        x = st.pop()
        for (sym, a) in rev.get(x, ()):
            if a not in can:
                can.add(a)
                st.append(a)
    eof_children = {c for (c, n) in eof_close if n in can}
    return starts, delta, accepts, sorted(set(problems)), eof_children


# ------------------------------------------------------------------------------------------- doc side
class DocModel:
    def __init__(self, prog, rules, bang_kinds, node_kinds):
        self.rules = rules
        self.node_kinds = node_kinds
        self.bang = bang_kinds
        self.notes = []
        self.n = 0

    def resolve_nt(self, name):
        if name in self.rules:
            return name
        # typos in the documents (ClassID, Identitfer): nearest rule name by edit distance <= 2
        best = None
        for r in self.rules:
            d = edit_distance(name.lower(), r.lower())
            if d <= 2 and (best is None or d < best[0]):
                best = (d, r)
        if best:
            self.notes.append("documented nonterminal %s read as %s" % (name, best[1]))
            return best[1]
        return None

    def nfa(self, kind, cut, depth_limit=40):
        """Thompson-style NFA of rule `kind` with nonterminals expanded until cut symbols"""
        delta = {}
        problems = []

        def new():
            self.n += 1
            return ("d", self.n)

        def add(a, sym, b):
            delta.setdefault(a, []).append((sym, b))

        def build(ast, s, e, stack):
            k = ast[0]
            if k == "term":
                kinds = docgrammar.terminal_kinds(ast[1])
                if kinds is None:
                    problems.append("unknown terminal %r" % ast[1])
                    return
                for x in kinds:
                    add(s, x, e)
            elif k == "lex":
                kinds = self.bang if ast[1] == "BANGOP" else docgrammar.LEXICAL.get(ast[1])
                if kinds is None:
                    problems.append("unknown lexical class %s" % ast[1])
                    return
                for x in kinds:
                    add(s, x, e)
            elif k == "nt":
                name = self.resolve_nt(ast[1])
                if name is None:
                    problems.append("undefined nonterminal %s" % ast[1])
                    return
                if name in cut:
                    add(s, name, e)
                    return
                if name in stack or len(stack) > depth_limit:
                    problems.append("documented recursion through %s does not pass a cut symbol" % name)
                    return
                build(self.rules[name], s, e, stack + (name,))
            elif k == "seq":
                cur = s
                for i, x in enumerate(ast[1]):
                    nxt = e if i == len(ast[1]) - 1 else new()
                    build(x, cur, nxt, stack)
                    cur = nxt
                if not ast[1]:
                    add(s, None, e)
            elif k == "alt":
                for x in ast[1]:
                    build(x, s, e, stack)
            elif k == "opt":
                add(s, None, e)
                build(ast[1], s, e, stack)
            elif k == "star":
                m = new()
                add(s, None, m)
                add(m, None, e)
                build(ast[1], m, m, stack)
            elif k == "plus":
                m = new()
                build(ast[1], s, m, stack)
                add(m, None, e)
                build(ast[1], m, m, stack)
        s, e = new(), new()
        if kind not in self.rules:
            return None
        build(self.rules[kind], s, e, (kind,))
        return {s}, delta, {e}, problems


def edit_distance(a, b):
    dp = list(range(len(b) + 1))
    for i, ca in enumerate(a, 1):
        prev = dp[0]
        dp[0] = i
        for j, cb in enumerate(b, 1):
            cur = dp[j]
            dp[j] = min(dp[j] + 1, dp[j - 1] + 1, prev + (ca != cb))
            prev = cur
    return dp[-1]


# ------------------------------------------------------------------------------------------- automata
def eclose(delta, states):
    st = list(states)
    seen = set(states)
    while st:
        x = st.pop()
        for (sym, y) in delta.get(x, ()):
            if sym is None and y not in seen:
                seen.add(y)
                st.append(y)
    return frozenset(seen)


def determinize(starts, delta, accepts, limit=40000):
    s0 = eclose(delta, starts)
    dstates = {s0: 0}
    trans = {}
    acc = set()
    dq = deque([s0])
    while dq:
        S = dq.popleft()
        i = dstates[S]
        if S & accepts:
            acc.add(i)
        moves = {}
        for x in S:
            for (sym, y) in delta.get(x, ()):
                if sym is not None:
                    moves.setdefault(sym, set()).add(y)
        for sym, ys in moves.items():
            T = eclose(delta, ys)
            if T not in dstates:
                if len(dstates) > limit:
                    raise MemoryError("DFA too large")
                dstates[T] = len(dstates)
                dq.append(T)
            trans[(i, sym)] = dstates[T]
    return 0, trans, acc, len(dstates)


def witness_not_included(A, B):
    """shortest word accepted by DFA A and not by DFA B (B partial: missing transition = reject); None if A ⊆ B"""
    a0, at, aacc, _ = A
    b0, bt, bacc, _ = B
    start = (a0, b0)
    prev = {start: None}
    dq = deque([start])
    asyms = {}
    for (i, s), j in at.items():
        asyms.setdefault(i, []).append((s, j))
    while dq:
        (x, y) = dq.popleft()
        if x in aacc and (y is None or y not in bacc):
            w = []
            cur = (x, y)
            while prev[cur] is not None:
                cur, s = prev[cur]
                w.append(s)
            return list(reversed(w))
        for (s, x2) in sorted(asyms.get(x, ()), key=lambda z: str(z[0])):
            y2 = bt.get((y, s)) if y is not None else None
            n = (x2, y2)
            if n not in prev:
                prev[n] = ((x, y), s)
                dq.append(n)
    return None


def allow_trailing_separator(starts, delta, accepts, closers=("RSquare", "RBrace", "RParen", "Greater"), sep="Comma"):
    """L' = L ∪ { u sep c v | u c v ∈ L, c a closing bracket, u ends with an element }: a trailing separator inside
    a bracketed list is allowed by the property."""
    d2 = {k: list(v) for k, v in delta.items()}
    n = 0
    for a, outs in list(delta.items()):
        for (sym, b) in outs:
            if sym in closers:
                n += 1
                mid = ("ts", n)
                d2.setdefault(a, []).append((sep, mid))
                d2.setdefault(mid, []).append((sym, b))
    return starts, d2, accepts
