"""Obligation bookkeeping, evidence files, known findings, VIOLATION lines."""
import json
import os
import re
import time

VERIF = os.path.dirname(os.path.dirname(os.path.abspath(__file__)))
KNOWN = os.path.join(VERIF, "known_findings.txt")


class AnchorLost(Exception):
    """A construct a rule is anchored in could not be found (fail closed)."""


def load_known():
    known, fixed = {}, []
    if not os.path.exists(KNOWN):
        return known, fixed
    for line in open(KNOWN):
        line = line.strip()
        if not line or line.startswith("#"):
            continue
        m = re.match(r"known:\s+property=(\S+)\s+key=(.+?)\s+::\s+(.*)$", line)
        if m:
            known[(m.group(1), m.group(2))] = m.group(3)
            continue
        m = re.match(r"fixed:\s+property=(\S+)\s+(\S+)\s+(.*)$", line)
        if m:
            fixed.append((m.group(1), m.group(2), m.group(3)))
    return known, fixed


def _slug(s):
    import hashlib
    base = re.sub(r"[^A-Za-z0-9_.-]+", "_", s)[:120]
    if base != s:
        base += "-" + hashlib.sha1(s.encode()).hexdigest()[:8]
    return base


class Check:
    def __init__(self, pid, tier, seed=0):
        self.pid = pid
        self.tier = tier
        self.seed = seed
        self.t0 = time.time()
        self.obligations = []   # (rule, key, ok, nontrivial, detail)
        self.violations = []    # (rule, key, msg, detail)
        self.infos = []
        self.rules = {}         # rule id -> description
        self.trusted = []
        self.assumptions = []
        self.explanation = ""
        self.evaluations = 0
        self.extra = {}
        self.samples = []

    # ------------------------------------------------------------------ recording
    def rule(self, rid, text):
        self.rules[rid] = text

    def ob(self, rule, key, ok, detail="", nontrivial=True, msg=None, extra=None):
        """Record one rule instance. A failing instance becomes a violation keyed rule:key."""
        self.obligations.append((rule, key, bool(ok), nontrivial, detail))
        if not ok:
            self.violations.append((rule, key, msg or detail, extra or {}))
        return ok

    def count(self, n=1):
        self.evaluations += n

    def info(self, text):
        self.infos.append(text)

    def sample(self, obj):
        if len(self.samples) < 14:
            self.samples.append(obj)

    def anchor(self, cond, what):
        if not cond:
            raise AnchorLost(what)

    def floor(self, rule, what, n, floor):
        """Instance-count floor: the rule must have seen at least `floor` instances."""
        # `floor` is the count confirmed on the reference tree; a refactoring may legitimately remove a few
        # instances, a rule that lost most of its instances has lost its anchor
        need = max(1, (3 * floor) // 4)
        self.ob(rule, "floor:" + _slug(what), n >= need,
                "%s: analysed %d instances (reference tree: %d, fails below %d)" % (what, n, floor, need),
                nontrivial=False,
                msg="anchor-lost: %s: only %d instances found, the reference tree has %d (fails below %d)" % (what, n, floor, need))

    # ------------------------------------------------------------------ finishing
    def finish(self):
        known, _fixed = load_known()
        wall = time.time() - self.t0
        real = []
        known_hits = []
        seen = set()
        for rule, key, msg, extra in self.violations:
            k = "%s:%s" % (rule, key)
            if k in seen:
                continue
            seen.add(k)
            if (self.pid, k) in known:
                known_hits.append((k, known[(self.pid, k)], msg))
            else:
                real.append((rule, key, k, msg, extra))
        for k, desc, msg in known_hits:
            print("KNOWN-FINDING: property=%s %s %s" % (self.pid, k, desc))
        OUT = os.environ.get("TDQ_OUT", VERIF)       # scratch runs against seeded trees write elsewhere
        rdir = os.path.join(OUT, "replay", self.pid)
        for rule, key, k, msg, extra in real:
            os.makedirs(rdir, exist_ok=True)
            p = os.path.join(rdir, _slug(k) + ".json")
            with open(p, "w") as fh:
                json.dump({"property": self.pid, "rule": rule, "rule_text": self.rules.get(rule, ""),
                           "key": key, "message": msg, "detail": extra}, fh, indent=1)
            print("  %s %s: %s" % (self.pid, k, msg))
            print("VIOLATION property=%s replay=%s" % (self.pid, p))
        n_ob = len(self.obligations)
        n_ok = sum(1 for o in self.obligations if o[2])
        distinct = len({(o[0], o[1]) for o in self.obligations if o[3]})
        samples = list(self.samples)
        for o in self.obligations:
            if len(samples) >= 14:
                break
            if o[3] and o[4]:
                samples.append({"rule": o[0], "instance": o[1], "holds": o[2], "because": o[4]})
        ev = {
            "property_id": self.pid,
            "tier": self.tier,
            "seed": self.seed,
            "level": "other",
            "coverage": {
                "explanation": self.explanation,
                "obligations": n_ob,
                "discharged": n_ok,
                "evaluations": max(self.evaluations, n_ob),
                "distinct_nontrivial": distinct,
                "rule": "one obligation per rule instance (call site, CFG path set, table row or automaton "
                        "inclusion) found in the current source; non-trivial = the verdict needed a path "
                        "search, a def-use chain, a fixpoint or a table/automaton comparison; distinct by "
                        "(rule, construct key)",
                "samples": samples,
                "rules": self.rules,
                "trusted_base": self.trusted,
                "checker_cmd": "./check %s --tier %s" % (self.pid, self.tier),
                "known_findings_reported": [k for k, _, _ in known_hits],
                "unlisted_violations": [k for _, _, k, _, _ in real],
                "info": self.infos[:40],
            },
            "assumptions": self.assumptions,
            "wall_s": round(wall, 2),
            "violations": len(real),
        }
        ev["coverage"].update(self.extra)
        os.makedirs(os.path.join(OUT, "evidence"), exist_ok=True)
        with open(os.path.join(OUT, "evidence", self.pid + ".json"), "w") as fh:
            json.dump(ev, fh, indent=1)
        print("%s: %d obligations, %d discharged, %d known findings, %d violations (%.1fs)" % (
            self.pid, n_ob, n_ok, len(known_hits), len(real), wall))
        return 1 if real else 0
