"""D1: which scope kinds are guaranteed to be on the indexer's scope stack when a function runs.

CTX(F) = set of frozensets of ScopeKind variants that may be the pushed-and-not-yet-popped scopes on
entry to F (one set per class of call paths), propagated over the call graph from ide::index::index."""
from . import paths, brackets
from .facts import Body, op_local
from .callgraph import callgraph

PUSH = "ide::index::scope::Scopes::push"
POP = "ide::index::scope::Scopes::pop"
SCOPEKIND = "ide::index::scope::ScopeKind"


def pushed_variant(body, bb):
    t = body.term(bb)
    a = t["args"][1] if len(t["args"]) > 1 else None
    l = op_local(a) if a else None
    d = body.single_def(l) if l is not None else None
    if d and d[0] == "stmt":
        rv = d[3]
        if "agg" in rv and isinstance(rv["agg"], dict) and rv["agg"].get("adt") == SCOPEKIND:
            return rv["agg"]["variant"]
        c = (rv.get("use") or {}).get("const") if isinstance(rv.get("use"), dict) else None
        if c and c["ty"] == SCOPEKIND:
            return c["val"].rsplit("::", 1)[-1]
    return None


def held_at(body):
    """block -> tuple of scope variants pushed (in this body) and not yet popped when the block's terminator runs;
    computed by forward exploration (set of possible stacks per block)."""
    opens = {i: pushed_variant(body, i) for i, t in body.calls() if Body.callee(t) == PUSH}
    closes = {i for i, t in body.calls() if Body.callee(t) == POP}
    stacks = {0: {()}}
    work = [0]
    while work:
        b = work.pop()
        for st in list(stacks[b]):
            nst = st
            if b in opens:
                nst = st + (opens[b] or "?",)
            elif b in closes and st:
                nst = st[:-1]
            if len(nst) > 6:
                continue
            for s in body.succ(b):
                cur = stacks.setdefault(s, set())
                if nst not in cur:
                    cur.add(nst)
                    work.append(s)
    return stacks, opens


def contexts(prog, root="ide::index::index"):
    cg = callgraph(prog)
    ctx = {root: {frozenset()}}
    work = [root]
    cache = {}
    while work:
        f = work.pop()
        b = prog.body(f)
        if b is None:
            continue
        if f not in cache:
            cache[f] = held_at(b)
        stacks, opens = cache[f]
        for e in cg.out.get(f, []):
            if e.kind not in ("call", "virtual", "funarg") or e.target not in prog.bodies:
                continue
            if e.bb is None:
                local_sets = [()]
                # closure/funarg edges without a site: any stack of the creator
                local_sets = set().union(*stacks.values()) if stacks else {()}
            else:
                local_sets = stacks.get(e.bb, {()})
            new = set()
            for base in ctx[f]:
                for st in local_sets:
                    new.add(frozenset(base | set(st)))
            cur = ctx.setdefault(e.target, set())
            if not new <= cur:
                cur |= new
                work.append(e.target)
    return ctx


def accessor_variants(prog):
    """Scopes::current_*_id -> ScopeKind variant for which the accessor yields Some"""
    out = {}
    for p, b in prog.bodies.items():
        if not p.startswith("ide::index::scope::Scopes::current_") or b.parent:
            continue
        variants = set()
        for c in prog.closures_of(p):
            for _, t in c.calls():
                callee = Body.callee(t) or ""
                if callee.startswith("ide::index::scope::Scope::"):
                    sb = prog.body(callee)
                    if sb is None:
                        continue
                    for pth in paths.enum_paths(sb, prog):
                        if pth.end != "return" or pth.ret is None or pth.ret[0] != "rv":
                            continue
                        rv = pth.ret[1]
                        if "agg" in rv and isinstance(rv["agg"], dict) and rv["agg"].get("variant") == "Some":
                            for e in pth.events:
                                if e[0] == "branch" and e[2].kind == "discr" and e[2].data[1] == SCOPEKIND and \
                                        not isinstance(e[3], tuple):
                                    v = prog.variant_by_discr(SCOPEKIND, e[3])
                                    if v:
                                        variants.add(v)
        if variants:
            out[p] = variants
    return out


def needs_for_site(prog, body, site_bb, acc):
    """scope variants of which at least one must be held to avoid reaching block site_bb:
    union over the current_*_id tests whose None edge is on every path to the site."""
    need = set()
    tests = brackets.option_tests(body, prog)
    t = body.term(site_bb)
    # direct: expect/unwrap on the accessor result
    if t["k"] == "call" and t["args"]:
        l = op_local(t["args"][0])
        d = body.single_def(l) if l is not None else None
        if d and d[0] == "call" and Body.callee(d[2]) in acc:
            return set(acc[Body.callee(d[2])])
    for tt in tests:
        if tt["src_callee"] in acc:
            from_none = site_bb in body.reachable(tt["none_target"])
            from_some = site_bb in body.reachable(tt["some_target"])
            if from_none and not from_some:
                need |= acc[tt["src_callee"]]
    return need
