"""A3: bracket (open/close) typestate on a MIR CFG, with feasibility pruning of `?` / Option-match
edges whose source is a typed-AST accessor of a child node the grammar always creates."""
from collections import deque

from .facts import Body, op_local, op_place
from . import paths, grammar_facts as gf

TRY_BRANCH = "<std::option::Option<T> as std::ops::Try>::branch"


def option_tests(body, prog):
    """Switches that test an Option produced by a call: list of dict(bb, none_target, some_target,
    src_bb, src_callee, via) where via is 'try' (operator ?) or 'match'."""
    out = []
    for b, bb in enumerate(body.blocks):
        if bb["cleanup"]:
            continue
        t = bb["term"]
        if t["k"] != "switch":
            continue
        l = op_local(t["d"])
        if l is None:
            continue
        v = paths.resolve_value(body, l)
        if v[0] != "discr":
            continue
        place, of = v[1], v[2]
        if place["p"]:
            continue
        src = body.single_def(place["l"])
        if src is None or src[0] != "call":
            continue
        term = src[2]
        callee = Body.callee(term)
        arms = dict((a[0], a[1]) for a in t["arms"])
        if callee == TRY_BRANCH and of.startswith("std::ops::ControlFlow<"):
            # Continue = 0, Break = 1
            a0 = term["args"][0]
            l0 = op_local(a0)
            src2 = body.single_def(l0) if l0 is not None else None
            s_callee = Body.callee(src2[2]) if src2 and src2[0] == "call" else None
            s_bb = src2[1] if src2 and src2[0] == "call" else None
            out.append(dict(bb=b, none_target=arms.get(1, t["else"]), some_target=arms.get(0, t["else"]),
                            src_bb=s_bb, src_callee=s_callee, via="try"))
        elif of.startswith("std::option::Option<"):
            out.append(dict(bb=b, none_target=arms.get(0, t["else"]), some_target=arms.get(1, t["else"]),
                            src_bb=src[1], src_callee=callee, via="match"))
    return out


class ChildOracle:
    """Answers: can accessor fn return None on (a) any input, (b) error-free input?"""

    def __init__(self, prog, g, types, accessors):
        self.prog, self.g, self.types, self.acc = prog, g, types, accessors

    def bounds(self, fn, error_free=False):
        a = self.acc.get(fn)
        if a is None:
            return None
        kinds_self = self.types.get(a["self"], {}).get("kinds") or set()
        if len(kinds_self) != 1:
            return None
        k = next(iter(kinds_self))
        summ = gf.child_summary(self.g, k, error_free_only=error_free)
        if summ is None:
            return None
        tinfo = self.types.get(a["target"], {})
        tk = tinfo.get("kinds") or set()
        if tinfo.get("is_enum"):
            gname = "@" + a["target"].rsplit("::", 1)[-1]
            lo, hi = summ.get(gname, (0, 0))
        else:
            lo = sum(summ.get(x, (0, 0))[0] for x in tk)
            hi = sum(summ.get(x, (0, 0))[1] for x in tk)
        return k, tk, lo, hi

    def always_some(self, fn):
        b = self.bounds(fn)
        if b is None:
            return False
        a = self.acc[fn]
        need = 1 if a["mode"] == "child" else (a["index"] + 1 if a["mode"] == "nth" else None)
        return need is not None and b[2] >= need

    def optional_in_valid_input(self, fn):
        """the child may be legitimately absent in an error-free parse, and may be present"""
        b = self.bounds(fn, error_free=True)
        if b is None:
            return None
        a = self.acc[fn]
        need = 1 if a["mode"] == "child" else (a["index"] + 1 if a["mode"] == "nth" else None)
        if need is None:
            return None
        return b[2] < need and b[3] >= min(need, 2)


def infeasible_edges(body, prog, oracle):
    """set of (switch block, target) edges that cannot be taken"""
    dead = set()
    tests = option_tests(body, prog)
    for t in tests:
        if t["src_callee"] and oracle.always_some(t["src_callee"]):
            dead.add((t["bb"], t["none_target"]))
    return dead, tests


def check(body, is_open, is_close, dead_edges=frozenset(), maxdepth=6):
    """BFS over (block, depth). Returns dict(leaks=[(path, depth)], underflows=[path], sites=n_open, closes=n)."""
    opens = set()
    closes = set()
    for i, t in body.calls():
        c = Body.callee(t)
        if c and is_open(c):
            opens.add(i)
        if c and is_close(c):
            closes.add(i)
    res = {"opens": sorted(opens), "closes": sorted(closes), "leaks": [], "underflows": [], "unbounded": []}
    if not opens and not closes:
        return res
    start = (0, 0)
    prev = {start: None}
    dq = deque([start])
    leak_seen = set()
    while dq:
        b, d = dq.popleft()
        t = body.term(b)
        if t["k"] == "return":
            if d != 0 and d not in leak_seen:
                leak_seen.add(d)
                res["leaks"].append((trace(prev, (b, d)), d))
            continue
        nd = d
        if b in opens:
            nd = d + 1
        elif b in closes:
            nd = d - 1
            if nd < 0:
                res["underflows"].append(trace(prev, (b, d)))
                continue
        if nd > maxdepth:
            res["unbounded"].append(trace(prev, (b, d)))
            continue
        for s in body.succ(b):
            if (b, s) in dead_edges:
                continue
            st = (s, nd)
            if st not in prev:
                prev[st] = (b, d)
                dq.append(st)
    return res


def trace(prev, st):
    out = []
    while st is not None:
        out.append(st)
        st = prev[st]
    return list(reversed(out))


def describe_path(body, path, interesting):
    """lines of the blocks on `path` whose terminator is a call satisfying `interesting`, plus the end"""
    out = []
    for b, d in path:
        t = body.term(b)
        if t["k"] == "call":
            c = Body.callee(t) or ""
            if interesting(c):
                out.append("%s@%s" % (c.rsplit("::", 2)[-2] + "::" + c.rsplit("::", 1)[-1] if "::" in c else c, t.get("ln")))
        elif t["k"] == "return":
            out.append("return@%s" % t.get("ln"))
    return " -> ".join(out)
