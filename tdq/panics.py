"""A2: inventory of panic-capable sites reachable from an entry set, with discharge rules."""
import re

from .facts import Body, op_local, op_const
from .callgraph import callgraph

PANIC_CALL = re.compile(
    r"^core::panicking::|^std::rt::begin_panic|^std::rt::panic_fmt$|^std::rt::panic_display|^std::panicking::|^core::option::expect_failed|"
    r"^core::result::unwrap_failed|^std::process::(abort|exit)$")
UNWRAP = re.compile(
    r"^std::option::Option::<T>::(unwrap|expect)$|"
    r"^std::result::Result::<T, E>::(unwrap|expect|unwrap_err|expect_err)$")
INDEXING = re.compile(
    r"std::ops::Index<.*>>::index$|std::ops::IndexMut<.*>>::index_mut$|^core::slice::index::|"
    r"^core::str::traits::<impl std::ops::Index|^std::ops::Index::index$|^std::ops::IndexMut::index_mut$")
# external APIs with documented panicking preconditions (A1 table)
PRECOND = [
    (re.compile(r"^iset::IntervalMap::<T, V, Ix>::(insert|force_insert|iter|iter_mut|values|intervals|remove|contains|get|"
                r"values_overlap|has_overlap|range|smallest|largest|covered_len|into_iter_sorted)"), "iset: non-empty interval/point query"),
    (re.compile(r"^rowan::(api::)?SyntaxNode::<L>::covering_element$"), "rowan: range inside the node"),
    (re.compile(r"^rowan::(api::)?SyntaxNode::<L>::token_at_offset$"), "rowan: offset inside the node"),
    (re.compile(r"^rowan::(api::)?SyntaxNode::<L>::(child_or_token_at_range)$"), "rowan: range inside the node"),
    (re.compile(r"^text_size::TextRange::new$|^rowan::TextRange::new$"), "text-size: start <= end"),
    (re.compile(r"^text_size::TextRange::at$"), "text-size: no overflow"),
    (re.compile(r"<text_size::TextSize as std::ops::(Add|Sub|AddAssign|SubAssign)"), "text-size: arithmetic overflow"),
    (re.compile(r"<text_size::TextRange as std::ops::(Add|Sub|Index)"), "text-size: range arithmetic"),
    (re.compile(r"^ropey::Rope::(char_to_line|line_to_char|byte_to_char|char_to_byte|byte_to_line|line_to_byte|"
                r"char_to_utf16_cu|utf16_cu_to_char|line|char|byte|slice|byte_slice|insert|remove|split_off)$"),
     "ropey: index <= len in the unit of the call"),
    (re.compile(r"^rowan::GreenNodeBuilder::<'_>::(finish_node|start_node_at|finish)$"), "rowan builder: balanced"),
    (re.compile(r"^id_arena::Arena::<T, A>::(index|index_mut)$|<id_arena::Arena<T, A> as std::ops::Index"), "arena: id from the same arena"),
    (re.compile(r"^std::cell::RefCell::<T>::(borrow|borrow_mut)$"), "RefCell: not already borrowed"),
    (re.compile(r"^std::iter::Iterator::step_by$"), "step != 0"),
    (re.compile(r"^std::(string::String|str)::.*(split_at|insert|remove|drain|truncate|replace_range)$"), "char boundary / in range"),
    (re.compile(r"^std::vec::Vec::<T, A>::(remove|insert|swap_remove|drain|split_off|swap|truncate)$"), "index in range"),
    (re.compile(r"^std::collections::VecDeque::<T, A>::(remove|insert|swap)$"), "index in range"),
    (re.compile(r"^std::time::Instant::|^std::time::SystemTime::"), "time arithmetic"),
    (re.compile(r"^unscanny::Scanner::<'a>::(jump|uneat|get|from|to|eat_until|eat_while)$"), "unscanny: char boundary / in range"),
]


class Site:
    __slots__ = ("fn", "bb", "kind", "what", "line", "mac", "key")

    def __init__(self, fn, bb, kind, what, line, mac):
        self.fn, self.bb, self.kind, self.what, self.line, self.mac = fn, bb, kind, what, line, mac
        self.key = None


def inventory(prog, roots, stop=None):
    cg = callgraph(prog)
    reach = cg.reachable(roots, stop=stop)
    sites = []
    for p in sorted(reach):
        b = prog.bodies[p]
        per = {}
        for i, bb in enumerate(b.blocks):
            if bb["cleanup"]:
                continue
            t = bb["term"]
            s = None
            if t["k"] == "call":
                c = Body.callee(t) or ""
                if PANIC_CALL.search(c):
                    s = Site(p, i, "panic", c, t.get("ln"), t.get("mac"))
                elif UNWRAP.search(c):
                    s = Site(p, i, "unwrap", c, t.get("ln"), t.get("mac"))
                elif INDEXING.search(c):
                    s = Site(p, i, "index", c, t.get("ln"), t.get("mac"))
                else:
                    for rx, why in PRECOND:
                        if rx.search(c):
                            s = Site(p, i, "precond", c, t.get("ln"), t.get("mac"))
                            break
            elif t["k"] == "assert":
                s = Site(p, i, "mir-assert", t.get("msg") or "?", t.get("ln"), t.get("mac"))
            if s is not None:
                base = "%s|%s|%s" % (p, s.kind, s.what)
                per[base] = per.get(base, 0) + 1
                s.key = "%s#%d" % (base, per[base])
                sites.append(s)
    return sites, reach


def guarded_unwrap(body, site):
    """Generic discharge: Option/Result unwrap whose operand was tested by is_some/is_ok/is_none... on the
    same place in a dominating block is not decided here (rare in this code base); returns None."""
    return None
