"""Rename normalisation: rules name functions of the code base by path. A function that was merely renamed (same
container, same signature, nearly the same callees) is found again through a committed fingerprint of the reference
tree (tdq/anchors.json, written by bin/gen-anchors) and the facts are rewritten in memory to its reference name, so
that a renaming changes no verdict. Ambiguous or weak matches are not aliased (the rule then loses its anchor and
fails closed)."""
import json
import os
from collections import Counter

HERE = os.path.dirname(os.path.abspath(__file__))
ANCHORS = os.path.join(HERE, "anchors.json")
CRATES = ("syntax.rlib", "ide.rlib", "lsp.rlib", "lsp.executable")


def container(path):
    return path.rsplit("::", 1)[0]


def fingerprint(raw):
    locs = raw.get("locals", [])
    argc = raw.get("argc", 0)
    sig = [l.get("t", "") for l in locs[:argc + 1]]
    ext = Counter()
    nlocal = 0
    for bb in raw.get("blocks", []):
        t = bb.get("term", {})
        if t.get("k") == "call":
            f = t.get("f", {})
            fn = f.get("fn") or f.get("decl")
            if fn is None:
                continue
            if f.get("local"):
                nlocal += 1
            else:
                ext[fn] += 1
    return {"argc": argc, "sig": sig, "ext": sorted(ext.elements()), "nlocal": nlocal, "nblocks": len(raw.get("blocks", []))}


def collect(crates):
    out = {}
    for cname, raw in crates.items():
        if cname not in CRATES:
            continue
        for b in raw["bodies"]:
            if b.get("parent"):
                continue
            out.setdefault(b["path"], fingerprint(b))
    return out


def similarity(a, b):
    if a["argc"] != b["argc"] or a["sig"] != b["sig"]:
        return 0.0
    ca, cb = Counter(a["ext"]), Counter(b["ext"])
    inter = sum((ca & cb).values())
    union = sum((ca | cb).values())
    j = inter / union if union else 1.0
    nb = min(a["nblocks"], b["nblocks"]) / max(1, max(a["nblocks"], b["nblocks"]))
    nl = 1.0 if a["nlocal"] == b["nlocal"] else 0.8 if abs(a["nlocal"] - b["nlocal"]) <= 1 else 0.5
    return 0.6 * j + 0.25 * nb + 0.15 * nl


def find_renames(crates):
    """-> {new path: reference path}, notes"""
    if not os.path.exists(ANCHORS):
        return {}, []
    ref = json.load(open(ANCHORS))["functions"]
    cur = collect(crates)
    missing = [p for p in ref if p not in cur]
    extra = [p for p in cur if p not in ref]
    if not missing or not extra:
        return {}, []
    scored = []
    for m in missing:
        cands = [(similarity(ref[m], cur[e]), e) for e in extra if container(e) == container(m)]
        cands = sorted((c for c in cands if c[0] > 0), reverse=True)
        if not cands:
            continue
        best = cands[0]
        second = cands[1][0] if len(cands) > 1 else 0.0
        if best[0] >= 0.7 and best[0] - second >= 0.1:
            scored.append((best[0], m, best[1]))
    alias = {}
    used = set()
    notes = []
    for sc, m, e in sorted(scored, reverse=True):
        if e in used or m in alias.values():
            continue
        used.add(e)
        alias[e] = m
        notes.append("function %s is taken to be the reference tree's %s under a new name (similarity %.2f)" % (e, m, sc))
    return alias, notes


def rewrite(obj, alias):
    """replace every string that is a renamed path (or a closure / nested item of one) by its reference name"""
    if isinstance(obj, str):
        if obj in alias:
            return alias[obj]
        for new, old in alias.items():
            if obj.startswith(new + "::"):
                return old + obj[len(new):]
        return obj
    if isinstance(obj, list):
        return [rewrite(x, alias) for x in obj]
    if isinstance(obj, dict):
        return {k: rewrite(v, alias) for k, v in obj.items()}
    return obj
