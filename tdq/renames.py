"""Rename normalisation: rules name functions of the code base by path. A function that was merely renamed (same
container, same signature, nearly the same callees) is found again through a committed fingerprint of the reference
tree (tdq/anchors.json, written by bin/gen-anchors) and the facts are rewritten in memory to its reference name, so
that a renaming changes no verdict. Ambiguous or weak matches are not aliased (the rule then loses its anchor and
fails closed)."""
import json
import os
from collections import Counter

HERE = os.path.dirname(os.path.abspath(__file__))
ANCHORS = os.path.join(HERE, "anchors.json")
CRATES = ("syntax.rlib", "ide.rlib", "lsp.rlib", "lsp.executable")


def container(path):
    return path.rsplit("::", 1)[0]


def fingerprint(raw):
    locs = raw.get("locals", [])
    argc = raw.get("argc", 0)
    sig = [l.get("t", "") for l in locs[:argc + 1]]
    ext = Counter()
    nlocal = 0
    for bb in raw.get("blocks", []):
        t = bb.get("term", {})
        if t.get("k") == "call":
            f = t.get("f", {})
            fn = f.get("fn") or f.get("decl")
            if fn is None:
                continue
            if f.get("local"):
                nlocal += 1
            else:
                ext[fn] += 1
    return {"argc": argc, "sig": sig, "ext": sorted(ext.elements()), "nlocal": nlocal, "nblocks": len(raw.get("blocks", []))}


def collect(crates):
    out = {}
    for cname, raw in crates.items():
        if cname not in CRATES:
            continue
        for b in raw["bodies"]:
            if b.get("parent"):
                continue
            out.setdefault(b["path"], fingerprint(b))
    # who calls the function, with which constant arguments (a renamed function keeps its call sites)
    callers = {}
    for cname, raw in crates.items():
        if cname not in CRATES:
            continue
        for b in raw["bodies"]:
            for bb in b.get("blocks", []):
                t = bb.get("term", {})
                if t.get("k") != "call":
                    continue
                f = t.get("f", {})
                fn = f.get("fn")
                if not fn or not f.get("local"):
                    continue
                consts = [a["const"].get("val", "") for a in t.get("args", []) if isinstance(a, dict) and "const" in a]
                callers.setdefault(fn, []).append("%s|%s" % (b["path"].split("::{closure")[0], ",".join(map(str, consts))))
    for p, fp in out.items():
        fp["callers"] = sorted(callers.get(p, []))
    return out


def similarity(a, b):
    if a["argc"] != b["argc"] or a["sig"] != b["sig"]:
        return 0.0
    ca, cb = Counter(a["ext"]), Counter(b["ext"])
    inter = sum((ca & cb).values())
    union = sum((ca | cb).values())
    j = inter / union if union else 1.0
    nb = min(a["nblocks"], b["nblocks"]) / max(1, max(a["nblocks"], b["nblocks"]))
    nl = 1.0 if a["nlocal"] == b["nlocal"] else 0.8 if abs(a["nlocal"] - b["nlocal"]) <= 1 else 0.5
    body = 0.6 * j + 0.25 * nb + 0.15 * nl
    ca, cb = a.get("callers"), b.get("callers")
    if ca and cb is not None:
        same_callers = 1.0 if ca == cb else 0.0
        # identical call sites make up for a changed body; a changed caller name (itself renamed) must not count
        # against an unchanged body
        return max(body, 0.45 * same_callers + 0.55 * body)
    return body


def find_renames(crates):
    """-> {new path: reference path}, notes"""
    if not os.path.exists(ANCHORS):
        return {}, []
    ref = json.load(open(ANCHORS))["functions"]
    cur = collect(crates)
    missing = [p for p in ref if p not in cur]
    extra = [p for p in cur if p not in ref]
    if not missing or not extra:
        return {}, []
    scored = []
    for m in missing:
        def name_bonus(x, y):
            tx = set(x.rsplit("::", 1)[-1].lower().split("_"))
            ty = set(y.rsplit("::", 1)[-1].lower().split("_"))
            return 0.1 * len(tx & ty) / max(1, len(tx | ty))
        cands = [(similarity(ref[m], cur[e]) + name_bonus(m, e), e) for e in extra if container(e) == container(m)
                 and similarity(ref[m], cur[e]) > 0]
        cands = sorted((c for c in cands if c[0] > 0), reverse=True)
        if not cands:
            continue
        best = cands[0]
        second = cands[1][0] if len(cands) > 1 else 0.0
        if best[0] >= 0.62 and best[0] - second >= 0.04:
            scored.append((best[0], m, best[1]))
    alias = {}
    used = set()
    notes = []
    for sc, m, e in sorted(scored, reverse=True):
        if e in used or m in alias.values():
            continue
        used.add(e)
        alias[e] = m
        notes.append("function %s is taken to be the reference tree's %s under a new name (similarity %.2f)" % (e, m, sc))
    return alias, notes


def rewrite(obj, alias):
    """replace every string that is a renamed path (or a closure / nested item of one) by its reference name"""
    if isinstance(obj, str):
        if obj in alias:
            return alias[obj]
        for new, old in alias.items():
            if obj.startswith(new + "::"):
                return old + obj[len(new):]
        return obj
    if isinstance(obj, list):
        return [rewrite(x, alias) for x in obj]
    if isinstance(obj, dict):
        return {k: rewrite(v, alias) for k, v in obj.items()}
    return obj


def collect_structs(crates):
    """local structs: path -> [[field name, field type], ..]"""
    out = {}
    for cname, raw in crates.items():
        if cname not in CRATES:
            continue
        for a in raw.get("adts", []):
            if a.get("local") and not a.get("is_enum") and a.get("variants"):
                out.setdefault(a["path"], [[f.get("n"), f.get("t")] for f in a["variants"][0].get("fields", [])])
    return out


def field_renames(crates):
    """fields of a struct that were only renamed (same struct, same number of fields, same types in the same order):
    -> {(index, new name, type): reference name}, notes"""
    if not os.path.exists(ANCHORS):
        return {}, []
    ref = json.load(open(ANCHORS)).get("structs") or {}
    cur = collect_structs(crates)
    mapping = {}
    notes = []
    for path, fields in cur.items():
        rf = ref.get(path)
        if not rf or len(rf) != len(fields) or [f[1] for f in rf] != [f[1] for f in fields]:
            continue
        for idx, (new, old) in enumerate(zip(fields, rf)):
            if new[0] != old[0]:
                mapping[(idx, new[0], new[1])] = old[0]
                notes.append("field %s::%s is taken to be the reference tree's %s under a new name" % (path, new[0], old[0]))
    return mapping, notes


def rewrite_fields(obj, mapping):
    if isinstance(obj, dict):
        if "f" in obj and "n" in obj and "t" in obj and (obj["f"], obj["n"], obj["t"]) in mapping:
            o = dict(obj)
            o["n"] = mapping[(obj["f"], obj["n"], obj["t"])]
            return o
        if "n" in obj and "t" in obj and "f" not in obj and len(obj) == 2:
            # a struct's field list
            for (idx, new, ty), old in mapping.items():
                if obj["n"] == new and obj["t"] == ty:
                    return {"n": old, "t": ty}
        return {k: rewrite_fields(v, mapping) for k, v in obj.items()}
    if isinstance(obj, list):
        return [rewrite_fields(x, mapping) for x in obj]
    return obj
