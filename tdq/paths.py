"""Path enumeration over a MIR body with recognised branch conditions, and extraction of
finite decision tables (string -> variant, variant -> value) from match-shaped functions."""
import json

from .facts import op_local, op_place, op_const

STR_EQ = ("core::str::traits::<impl std::cmp::PartialEq for str>::eq",)


def const_str(op):
    c = op_const(op)
    if c and c["ty"] in ("&str", "&'static str") and c["val"].startswith('"'):
        return unescape(c["val"])
    return None


def unescape(v):
    # rustc prints string constants with Rust escapes: "…"
    assert v[0] == '"' and v[-1] == '"', v
    s = v[1:-1]
    out = []
    i = 0
    while i < len(s):
        c = s[i]
        if c == "\\" and i + 1 < len(s):
            n = s[i + 1]
            if n == "n":
                out.append("\n"); i += 2; continue
            if n == "t":
                out.append("\t"); i += 2; continue
            if n == "r":
                out.append("\r"); i += 2; continue
            if n in "\\\"'":
                out.append(n); i += 2; continue
            if n == "u":
                j = s.index("}", i)
                out.append(chr(int(s[i + 3:j], 16))); i = j + 1; continue
        out.append(c)
        i += 1
    return "".join(out)


class Cond:
    """What a switch discriminant means."""
    __slots__ = ("kind", "data")

    def __init__(self, kind, data):
        self.kind = kind
        self.data = data

    def __repr__(self):
        return "Cond(%s,%r)" % (self.kind, self.data)


def resolve_value(body, local, depth=0):
    """Trace a local back through single-def copies/moves. Returns a descriptor:
    ('call', bb, term) | ('discr', place, of_ty) | ('const', c) | ('arg', n) | ('rv', rvalue) | ('local', l)"""
    seen = set()
    while True:
        if local in seen:
            return ("local", local)
        seen.add(local)
        if 1 <= local <= body.argc:
            ds = body.defs().get(local, [])
            if not ds:
                return ("arg", local)
        d = body.single_def(local)
        if d is None:
            return ("local", local)
        if d[0] == "call":
            return ("call", d[1], d[2])
        rv = d[3]
        if "use" in rv:
            op = rv["use"]
            l2 = op_local(op)
            if l2 is not None:
                local = l2
                continue
            c = op_const(op)
            if c is not None:
                return ("const", c)
            return ("rv", rv)
        if "discr" in rv:
            return ("discr", rv["discr"], rv["of"])
        return ("rv", rv)


def place_root_deref(body, place):
    """If place is `*l` or `l`, trace l through refs: returns the ultimate (local, projection) it denotes."""
    l = place["l"]
    proj = list(place["p"])
    # follow `l = &X` / `l = copy m`
    guard = 0
    while proj and proj[0] == "*" and guard < 10:
        guard += 1
        d = body.single_def(l)
        if d is None or d[0] != "stmt":
            break
        rv = d[3]
        if "ref" in rv:
            l = rv["ref"]["l"]
            proj = list(rv["ref"]["p"]) + proj[1:]
            continue
        if "use" in rv and op_place(rv["use"]) is not None and not op_place(rv["use"])["p"]:
            l = op_place(rv["use"])["l"]
            continue
        break
    return l, proj


class Path:
    __slots__ = ("blocks", "events", "end", "ret")

    def __init__(self, blocks, events, end, ret):
        self.blocks = blocks
        self.events = events   # list of ('branch', bb, cond, taken) | ('call', bb, term) | ('assign', bb, stmt)
        self.end = end         # 'return' | 'loop' | 'diverge' | 'limit'
        self.ret = ret         # last whole assignment to _0: ('rv', rvalue) | ('call', term) | None


def switch_cond(body, prog, b):
    """Interpret the discriminant of the switch terminating block b."""
    t = body.term(b)
    l = op_local(t["d"])
    if l is None:
        pl = op_place(t["d"])
        if pl is not None:
            return Cond("place", pl)
        return Cond("unknown", None)
    v = resolve_value(body, l)
    if v[0] == "call":
        term = v[2]
        callee = term["f"].get("fn")
        if callee in STR_EQ:
            lit = const_str(term["args"][1]) if len(term["args"]) > 1 else None
            if lit is None:
                lit = const_str(term["args"][0])
            if lit is not None:
                other = term["args"][0] if const_str(term["args"][1]) is not None else term["args"][1]
                return Cond("streq", (lit, other))
        return Cond("call", (v[1], term))
    if v[0] == "discr":
        return Cond("discr", (v[1], v[2]))
    if v[0] == "rv":
        rv = v[1]
        if "unop" in rv and rv["unop"] == "Not":
            return Cond("not", rv["a"])
        if "binop" in rv:
            return Cond("binop", rv)
    if v[0] == "local":
        return Cond("local", v[1])
    if v[0] == "arg":
        return Cond("arg", v[1])
    return Cond("unknown", v)


def enum_paths(body, prog, start=0, limit=20000, stop_at=None):
    """Enumerate acyclic paths from `start` to a return (or `stop_at` blocks)."""
    out = []
    stack = [(start, (), (), None, ())]
    n = 0
    while stack:
        b, blocks, events, ret, known = stack.pop()
        n += 1
        if n > limit:
            out.append(Path(blocks, events, "limit", ret))
            break
        if b in blocks:
            out.append(Path(blocks + (b,), events, "loop", ret))
            continue
        blocks = blocks + (b,)
        bb = body.blocks[b]
        ev = list(events)
        for s in bb["s"]:
            if "a" in s:
                ev.append(("assign", b, s))
                if s["a"]["l"] == 0 and not s["a"]["p"]:
                    ret = ("rv", s["rv"])
                if known:
                    # what is known about the discriminant of a place is forgotten when its local is written; a fresh
                    # `_n = discriminant(place)` (an `if x == K` chain re-reads it) keeps the knowledge about `place`
                    known = tuple(kv for kv in known if kv[0][0] != s["a"]["l"])
        t = bb["term"]
        k = t["k"]
        if k == "call" and known and t.get("dest") is not None:
            known = tuple(kv for kv in known if kv[0][0] != t["dest"]["l"])
        if stop_at and b in stop_at:
            out.append(Path(blocks, tuple(ev), "stop", ret))
            continue
        if k == "return":
            out.append(Path(blocks, tuple(ev), "return", ret))
        elif k == "call":
            ev.append(("call", b, t))
            if t["dest"]["l"] == 0 and not t["dest"]["p"]:
                ret = ("call", t)
            if t["t"] is None:
                out.append(Path(blocks, tuple(ev), "diverge", ret))
            else:
                stack.append((t["t"], blocks, tuple(ev), ret, known))
        elif k == "switch":
            cond = switch_cond(body, prog, b)
            arms = t["arms"]
            # two tests of the discriminant of one (unchanged) place on one path agree with each other
            key = None
            if cond.kind == "discr" and isinstance(cond.data[0], dict) and "l" in cond.data[0]:
                key = (cond.data[0]["l"], json.dumps(cond.data[0].get("p")))
            kn = dict(known).get(key) if key is not None else None
            for val, tgt in arms:
                if kn is not None and ((kn[0] == "eq" and kn[1] != val) or (kn[0] == "ne" and val in kn[1])):
                    continue
                k2 = known if key is None else tuple(kv for kv in known if kv[0] != key) + ((key, ("eq", val)),)
                stack.append((tgt, blocks, tuple(ev) + (("branch", b, cond, val),), ret, k2))
            if not (kn is not None and kn[0] == "eq" and kn[1] in [a[0] for a in arms]):
                k2 = known
                if key is not None and not (kn is not None and kn[0] == "eq"):
                    excl = (kn[1] if kn is not None else frozenset()) | frozenset(a[0] for a in arms)
                    k2 = tuple(kv for kv in known if kv[0] != key) + ((key, ("ne", excl)),)
                stack.append((t["else"], blocks, tuple(ev) + (("branch", b, cond, ("else", tuple(a[0] for a in arms))),), ret, k2))
        elif k in ("goto", "drop", "assert"):
            stack.append((t["t"], blocks, tuple(ev), ret, known))
        else:
            out.append(Path(blocks, tuple(ev), "diverge", ret))
    return out


def describe_result(prog, ret):
    """('variant', adt, name) | ('const', val) | ('call', callee, [const string args]) | ('other', ...)"""
    if ret is None:
        return ("none",)
    if ret[0] == "rv":
        rv = ret[1]
        if "agg" in rv and isinstance(rv["agg"], dict) and "adt" in rv["agg"]:
            return ("variant", rv["agg"]["adt"], rv["agg"]["variant"])
        if "use" in rv:
            c = op_const(rv["use"])
            if c is not None:
                return ("const", c["val"])
        return ("other", rv)
    if ret[0] == "call":
        t = ret[1]
        strs = [const_str(a) for a in t["args"] if const_str(a) is not None]
        return ("call", t["f"].get("fn"), tuple(strs))
    return ("other", ret)


def _option_feasible(p):
    """a path that assigns Some(..)/None to a local and later branches on that local's discriminant must take the
    matching arm (enum_paths enumerates both)"""
    opt = {}
    for e in p.events:
        if e[0] == "assign" and not e[2]["a"]["p"]:
            rv = e[2]["rv"]
            l = e[2]["a"]["l"]
            if isinstance(rv, dict) and isinstance(rv.get("agg"), dict) and str(rv["agg"].get("adt", "")).endswith("option::Option"):
                opt[l] = rv["agg"].get("variant")
            elif isinstance(rv, dict) and "use" in rv and op_local(rv["use"]) in opt:
                opt[l] = opt[op_local(rv["use"])]
            else:
                opt.pop(l, None)
        elif e[0] == "call":
            d = e[2].get("dest")
            if d and not d["p"]:
                opt.pop(d["l"], None)
        elif e[0] == "branch" and e[2].kind == "discr":
            pl = e[2].data[0]
            if isinstance(pl, dict) and not pl.get("p") and pl.get("l") in opt and "option::Option" in str(e[2].data[1]):
                want = 1 if opt[pl["l"]] == "Some" else 0
                taken = e[3]
                if isinstance(taken, tuple):
                    if want in taken[1]:
                        return False
                elif taken != want:
                    return False
    return True


def _resolve_value(prog, p, op, depth=0):
    """what an operand holds at the end of path p, looking through copies and `Some(x)` payload projections"""
    if op is None or depth > 8:
        return None
    c = op_const(op)
    if c is not None:
        ty, val = c.get("ty", ""), c.get("val", "")
        if ty in prog.adts and isinstance(val, str) and val.startswith(ty + "::"):
            return ("variant", ty, val[len(ty) + 2:])
        return ("const", val)
    pl = op_place(op)
    if pl is None:
        return None
    proj = pl["p"]
    for e in reversed(p.events):
        if e[0] == "assign" and e[2]["a"]["l"] == pl["l"] and not e[2]["a"]["p"]:
            rv = e[2]["rv"]
            if not isinstance(rv, dict):
                return None
            if not proj:
                if "use" in rv:
                    return _resolve_value(prog, p, rv["use"], depth + 1)
                if isinstance(rv.get("agg"), dict) and "adt" in rv["agg"]:
                    if str(rv["agg"]["adt"]).endswith("option::Option") and rv["agg"].get("variant") == "Some":
                        return _resolve_value(prog, p, (rv.get("ops") or [None])[0], depth + 1)
                    return ("variant", rv["agg"]["adt"], rv["agg"]["variant"])
                return None
            # payload of Some: [{dc: 1, n: Some}, {f: 0}]
            if len(proj) == 2 and isinstance(proj[0], dict) and proj[0].get("n") == "Some" and isinstance(proj[1], dict) and proj[1].get("f") == 0:
                if isinstance(rv.get("agg"), dict) and rv["agg"].get("variant") == "Some":
                    return _resolve_value(prog, p, (rv.get("ops") or [None])[0], depth + 1)
                if "use" in rv:
                    q = op_place(rv["use"])
                    if q is not None and not q["p"]:
                        return _resolve_value(prog, p, {"copy": {"l": q["l"], "p": proj}}, depth + 1)
            return None
    return None


def str_table(body, prog):
    """For a function matching a &str against literals: {literal: result}, default result.
    Every path is classified by the single literal it compared equal to (or none)."""
    table = {}
    default = []
    for p in enum_paths(body, prog):
        if p.end != "return":
            continue
        if not _option_feasible(p):
            continue
        pos = []
        for e in p.events:
            if e[0] == "branch" and e[2].kind == "streq":
                lit = e[2].data[0]
                taken = e[3]
                is_true = not (taken == 0)
                if isinstance(taken, tuple):  # else edge of a bool switch [0 -> ..] means true
                    is_true = 0 in taken[1]
                if is_true:
                    pos.append(lit)
        res = describe_result(prog, p.ret)
        # `<Option>.unwrap_or(default)` at the end of the path (a table whose helper was inlined): the Option built on
        # this very path decides
        if p.ret is not None and p.ret[0] == "call" and (p.ret[1]["f"].get("fn") or "").endswith("Option::<T>::unwrap_or"):
            t = p.ret[1]
            ol = op_local(t["args"][0])
            chosen = None
            cur = ol
            for _ in range(6):
                if cur is None:
                    break
                nxt = None
                for e in reversed(p.events):
                    if e[0] == "assign" and e[2]["a"]["l"] == cur and not e[2]["a"]["p"]:
                        rv = e[2]["rv"]
                        if isinstance(rv, dict) and isinstance(rv.get("agg"), dict) and str(rv["agg"].get("adt", "")).endswith("option::Option"):
                            chosen = rv
                        elif isinstance(rv, dict) and "use" in rv:
                            nxt = op_local(rv["use"])
                        break
                if chosen is not None:
                    break
                cur = nxt
            if chosen is not None:
                if chosen["agg"].get("variant") == "Some":
                    p = Path(p.blocks, p.events, p.end, ("rv", chosen))
                    res = describe_result(prog, p.ret)
                else:
                    d = t["args"][1] if len(t["args"]) > 1 else None
                    p = Path(p.blocks, p.events, p.end, ("rv", {"use": d}))
                    res = describe_result(prog, p.ret)
                    dl = op_local(d) if d is not None else None
                    if res[0] != "const" and dl is not None:
                        for e in reversed(p.events):
                            if e[0] == "assign" and e[2]["a"]["l"] == dl and not e[2]["a"]["p"]:
                                res = describe_result(prog, ("rv", e[2]["rv"]))
                                break
                    if res[0] == "const":
                        c = op_const(d) or {}
                        ty, val = c.get("ty", ""), c.get("val", "")
                        if ty in prog.adts and isinstance(val, str) and val.startswith(ty + "::"):
                            res = ("variant", ty, val[len(ty) + 2:])
        # `Some(<enum variant>)` is looked through, so that a table moved into a helper returning Option reads the same
        if res[0] == "variant" and res[1].endswith("option::Option") and res[2] == "Some" and p.ret[0] == "rv":
            ops = p.ret[1].get("ops") or []
            cur = ops[0] if ops else None
            for _ in range(6):
                if cur is None:
                    break
                c = op_const(cur)
                if c is not None:
                    ty, val = c.get("ty", ""), c.get("val", "")
                    if ty in prog.adts and isinstance(val, str) and val.startswith(ty + "::"):
                        res = ("variant", ty, val[len(ty) + 2:])
                    else:
                        res = ("const", val)
                    break
                l = op_local(cur)
                nxt = None
                if l is not None:
                    for e in reversed(p.events):
                        if e[0] == "assign" and e[2]["a"]["l"] == l and not e[2]["a"]["p"]:
                            rv = e[2]["rv"]
                            if isinstance(rv, dict) and "use" in rv:
                                nxt = rv["use"]
                            else:
                                res = describe_result(prog, ("rv", rv))
                            break
                cur = nxt
        if res[0] == "other" and isinstance(res[1], dict) and "use" in res[1]:
            rr = _resolve_value(prog, p, res[1]["use"])
            if rr is not None:
                res = rr
        if res[0] == "other" and not isinstance(res[1], str):
            res = ("other", json.dumps(res[1], sort_keys=True, default=str))
        if len(pos) == 1:
            table.setdefault(pos[0], set()).add(res)
        elif not pos:
            default.append(res)
    return table, default


def str_table_deep(body, prog, within="syntax::"):
    """str_table of `body`, or, when `body` itself compares no literal, of the one workspace function it calls that
    does (a table moved into a helper)."""
    tab, default = str_table(body, prog)
    if tab:
        return tab, default, body
    found = []
    for _, t in body.calls():
        f = t.get("f", {})
        c = f.get("fn")
        cb = prog.body(c) if c else None
        if cb is not None and c.startswith(within):
            t2, d2 = str_table(cb, prog)
            if t2:
                found.append((t2, d2, cb))
    if len(found) == 1:
        return found[0]
    return tab, default, body


def variant_table(body, prog, enum_path):
    """For a function switching on the discriminant of a value of enum `enum_path`:
    {variant name: set(results)}; variants not listed in any arm take the 'else' result."""
    variants = prog.adts[enum_path]["variants"]
    by_discr = {v["discr"]: v["name"] for v in variants}
    table = {}
    for p in enum_paths(body, prog):
        if p.end not in ("return",):
            continue
        chosen = None
        excluded = None
        for e in p.events:
            if e[0] == "branch" and e[2].kind == "discr" and e[2].data[1] == enum_path:
                if isinstance(e[3], tuple):
                    excluded = set(e[3][1]) | (excluded or set())
                else:
                    chosen = e[3]
        res = describe_result(prog, p.ret)
        try:
            hash(res)
        except TypeError:       # a computed result (e.g. a range comparison on the discriminant): opaque, never equal to a constant
            res = ("opaque", repr(res))
        if chosen is not None:
            table.setdefault(by_discr.get(chosen, "?%s" % chosen), set()).add(res)
        elif excluded is not None:
            for d, name in by_discr.items():
                if d not in excluded:
                    table.setdefault(name, set()).add(res)
        else:
            for name in by_discr.values():
                table.setdefault(name, set()).add(res)
    return table


def parse_const_list(val):
    """Parse rustc's rendering of a constant array: `&["a", "b"]` / `[path::E::A, path::E::B]`.
    Returns a list of strings (string literals unescaped, enum paths reduced to the variant name)."""
    v = val.strip()
    if v.startswith("&"):
        v = v[1:]
    if not (v.startswith("[") and v.endswith("]")):
        return None
    v = v[1:-1]
    out = []
    i = 0
    n = len(v)
    while i < n:
        if v[i] in " ,":
            i += 1
            continue
        if v[i] == '"':
            j = i + 1
            while j < n:
                if v[j] == "\\":
                    j += 2
                    continue
                if v[j] == '"':
                    break
                j += 1
            out.append(unescape(v[i:j + 1]))
            i = j + 1
        else:
            j = i
            while j < n and v[j] != ",":
                j += 1
            tok = v[i:j].strip()
            out.append(tok.rsplit("::", 1)[-1])
            i = j
    return out


def const_arrays_in(body, elem_ty_pred):
    """all constant arrays mentioned in the body's statements/call args whose type satisfies pred"""
    found = []

    def visit(op):
        c = op_const(op) if isinstance(op, dict) else None
        if c and elem_ty_pred(c["ty"]):
            lst = parse_const_list(c["val"])
            if lst is not None:
                found.append((c, lst))

    for bb in body.blocks:
        if bb["cleanup"]:
            continue
        for s in bb["s"]:
            rv = s.get("rv")
            if not rv:
                continue
            for k in ("use", "cast", "a", "b", "repeat"):
                if k in rv and isinstance(rv[k], dict):
                    visit(rv[k])
            for o in rv.get("ops", []):
                visit(o)
        t = bb["term"]
        if t["k"] == "call":
            for a in t["args"]:
                visit(a)
    return found


def branch_truth(taken):
    """For a switch on a bool: which truth value does this edge represent?"""
    if isinstance(taken, tuple):      # else edge; arms listed are excluded
        return 0 in taken[1]
    return taken != 0


def eval_char_pred(prog, fn, ch, depth=0):
    """Evaluate a pure `fn(char) -> bool` / `fn(&char) -> bool` predicate on a concrete character by
    walking the single feasible path of its MIR. Returns True/False or None when not evaluable."""
    from . import ref
    if fn in ref.CHAR_PREDICATES:
        return ref.CHAR_PREDICATES[fn](ch)
    body = prog.body(fn)
    if body is None or depth > 4:
        return None
    results = set()
    for p in enum_paths(body, prog, limit=2000):
        if p.end != "return":
            return None
        feasible = True
        for e in p.events:
            if e[0] != "branch":
                continue
            cond, taken = e[2], e[3]
            if cond.kind == "call":
                term = cond.data[1]
                callee = term["f"].get("fn")
                v = eval_char_pred(prog, callee, ch, depth + 1)
                if v is None:
                    return None
                if branch_truth(taken) != v:
                    feasible = False
            elif cond.kind in ("arg", "place", "local"):
                # switch on the character value itself
                if isinstance(taken, tuple):
                    if ord(ch) in taken[1]:
                        feasible = False
                elif taken != ord(ch):
                    feasible = False
            elif cond.kind == "binop":
                rv = cond.data
                cb_, ca_ = op_const(rv["b"]), op_const(rv["a"])
                c = cb_ or ca_
                if c is None or "int" not in c:
                    return None
                x, y = (ord(ch), c["int"]) if cb_ is not None else (c["int"], ord(ch))
                val = {"Eq": x == y, "Ne": x != y, "Lt": x < y, "Le": x <= y, "Gt": x > y, "Ge": x >= y}.get(rv["binop"])
                if val is None:
                    return None
                if branch_truth(taken) != val:
                    feasible = False
            else:
                return None
            if not feasible:
                break
        if feasible:
            r = describe_result(prog, p.ret)
            if r[0] == "other" and isinstance(r[1], dict) and r[1].get("binop") in ("Eq", "Ne", "Lt", "Le", "Gt", "Ge"):
                rv = r[1]
                cb_, ca_ = op_const(rv["b"]), op_const(rv["a"])
                c = cb_ or ca_
                if c is None or "int" not in c:
                    return None
                x, y = (ord(ch), c["int"]) if cb_ is not None else (c["int"], ord(ch))
                val = {"Eq": x == y, "Ne": x != y, "Lt": x < y, "Le": x <= y, "Gt": x > y, "Ge": x >= y}[rv["binop"]]
                results.add("true" if val else "false")
                continue
            if r[0] != "const":
                return None
            results.add(r[1])
    if results == {"true"}:
        return True
    if results == {"false"}:
        return False
    return None
