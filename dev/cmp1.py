import sys,time; sys.path.insert(0,'/verif')
from tdq import facts, grammar_cmp as gc, automata as fa
p=facts.program()
t=time.time()
c=gc.Comparison(p)
print('built',round(time.time()-t,1),'kinds',len(c.kinds),'shared',len(c.shared),'code only',sorted(c.code_only))
print('problems',c.problems)
print('states',sum(c.code_states.values()), max(c.code_states.items(), key=lambda z:z[1]), 'regions', len(c.code_region), 'eof_ok', sorted(c.eof_ok))
t=time.time()
C,res,log=c.solve()
print('solve',round(time.time()-t,1),'evals',c.evaluations,'transparent',sorted(c.shared-C),'log',log)
def f(x): return x if isinstance(x,str) else ('<end>' if x is None else x[0]+'['+(x[1] if isinstance(x[1],str) else '|'.join(sorted(x[1])))+']')
def show(w,s): return ' '.join(map(f,w))+' . '+f(s)
for k in sorted(C):
    r=res[k]
    if r is None: print(k,'NOT COMPARABLE'); continue
    cd,dc,A,B=r
    if cd or dc:
        print(k)
        for w,s in cd[:12]: print('   code accepts, doc does not:',show(w,s))
        for w,s in dc[:12]: print('   doc allows, code does not:',show(w,s))
print(c.doc.notes)
t=time.time()
c.compare_all(C)
fd=c.follow_dependence()
print('follow dependence',round(time.time()-t,1))
for u,a,b,w in fd: print('  ',u,'before',a[:6],'but not before',b[:6],':',' '.join(map(f,w)))
print('EB sample',{u:(sorted(v)[:8] if v is not gc.ANY else 'ANY') for u,v in list(c.eb['code'].items()) if u[0] in('Value','InnerValue','Identifier')})
