import sys,time; sys.path.insert(0,'/verif')
from tdq import facts, grammar_cmp as gc, automata as fa
import json
from collections import deque
p=facts.program()
c=gc.Comparison(p)
hint=json.load(open('/verif/tdq/c04_cut_hint.json'))['transparent']
C,res,log=c.solve(hint)
c.compare_all(C)
r=c.resolved['code'][('InnerValue',1)]
# BFS in NFA for accepting state with pend LBrace
prev={}
dq=deque(r.starts)
for s in r.starts: prev[s]=None
tgt=None
while dq:
    x=dq.popleft()
    if x in r.accepts and x[1]=='LBrace': tgt=x;break
    for (sy,y) in r.delta.get(x,()):
        if y not in prev: prev[y]=(x,sy); dq.append(y)
w=[]
while tgt and prev[tgt]: tgt,sy=prev[tgt]; w.append(sy)
print('word ending before LBrace:',list(reversed(w)))
raw=c.raws['code'][('InnerValue',1)]
# raw words: shortest accepted containing ^LBrace last
def words(d,limit=12):
    out=[];dq=deque([(d.start,())])
    seen=set()
    while dq and len(out)<limit:
        q,w=dq.popleft()
        if q in d.acc and w and w[-1]==('^','LBrace'): out.append(w)
        if len(w)>6: continue
        for sy,q2 in d.out(q):
            dq.append((q2,w+(sy,)))
    return out
for w in words(raw): print(w)
