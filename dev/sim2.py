import sys,time; sys.path.insert(0,'/verif')
from tdq import facts, grammar_cmp as gc, grammar_sim as gs, docgrammar
p=facts.program()
m=gc.load_model(p)
rules,src=docgrammar.load()
ex=gs.Explorer(m,rules,99)
def depth(toks):
    cs=ex.code.init; ds=(ex.doc.init,None); mc=md=0
    for t in toks:
        cs,_=ex.code.step(cs,t); ds=ex.doc_expand(ds)[0].get(t,(frozenset(),None))
        mc=max([mc]+[len(c[4]) for c in cs]); md=max([md]+[len(c[1]) for c in ds[0]])
    return mc,md
for s in ["Def Id Paste Id LBrace RBrace","Defvar Id Equal LSquare IntVal RSquare Semi","Let Id Equal IntVal In Def Id Semi","Class Id Less Int Id Greater LBrace Int Id Equal Id Less IntVal Greater Dot Id Semi RBrace","Defvar Id Equal XAdd LParen LSquare IntVal RSquare Comma Id RParen Semi", "Foreach Id Equal LSquare IntVal RSquare In LBrace If Id Then Def Semi RBrace"]:
    print(s,depth(s.split()))
