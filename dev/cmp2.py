import sys,time; sys.path.insert(0,'/verif')
from tdq import facts, grammar_cmp as gc, automata as fa
import cProfile,pstats
p=facts.program()
t=time.time(); c=gc.Comparison(p); print('comparison built',round(time.time()-t,1), 'model wall',c.model.wall)
C=set(c.shared)
t=time.time(); r=c.compare_all(C); print('all-opaque',round(time.time()-t,2))
t=time.time(); r=c.compare_all(C-{'ValueList'}); print('minus ValueList',round(time.time()-t,2))
cProfile.run("c.compare_all(C-{'StatementList'})",'/tmp/prof.out')
pstats.Stats('/tmp/prof.out').sort_stats('cumulative').print_stats(18)
