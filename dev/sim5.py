import sys,time,collections; sys.path.insert(0,'/verif')
from tdq import facts, grammar_cmp as gc, grammar_sim as gs, docgrammar
p=facts.program()
m=gc.load_model(p)
rules,src=docgrammar.load()
cd,dd=int(sys.argv[1]),int(sys.argv[2])
ex=gs.Explorer(m,rules,10**6,cd,dd)
t=time.time()
d=ex.run(limit_nodes=1500000)
print('nodes',ex.nodes,'diffs',len(d),round(time.time()-t,1))
small=set()
for adj in m.edges.values():
    for outs in adj.values():
        for (k,pl,dd_) in outs:
            if k=='guard' and len(pl)<10: small|=set(pl)
special=set(m.bang)&small
print('special bang',sorted(special))
def cls(t): return 'BANGOP' if (t in m.bang and t not in special) else t
c=collections.OrderedDict()
for x in d:
    k=(x['direction'],(x['code_stack'] or ['?'])[-1],cls((x['prefix'] or ['<start>'])[-1]),cls(x['token']))
    c.setdefault(k,x)
print('keys',len(c))
for k,x in c.items(): print(k,'::',' '.join(x['prefix']),'.',x['token'],'|',' '.join(x['completion']))
