import sys,time,collections,json; sys.path.insert(0,'/verif')
from tdq import facts, grammar_cmp as gc, grammar_sim as gs, docgrammar
p=facts.program()
c=gc.Comparison(p)
hint=json.load(open('/verif/tdq/c04_cut_hint.json'))['transparent']
C,res,log=c.solve(hint)
m=c.model
cd,dd=int(sys.argv[1]),int(sys.argv[2])
ex=gs.Explorer(m,c.rules,10**6,cd,dd)
t=time.time()
d=ex.run(limit_nodes=1500000)
print('nodes',ex.nodes,'diffs',len(d),round(time.time()-t,1))
json.dump({'C':sorted(C),'diffs':d},open('/tmp/diffs_%d_%d.json'%(cd,dd),'w'))
def inner(stack):
    for k in reversed(stack):
        if k in C: return k
    return '?'
keys=collections.OrderedDict()
for x in d:
    k=(x['direction'],'|'.join(x['doc_expecting'])) if x['direction']=='code-only' else (x['direction'],'|'.join(x['doc_via']),inner(x['code_stack']))
    keys.setdefault(k,[]).append(x)
print('keys',len(keys))
for k,xs in keys.items():
    x=xs[0]; print(k,len(xs),'::',' '.join(x['prefix']),'.',x['token'],'|',' '.join(x['completion']))
