import sys,time; sys.path.insert(0,'/verif')
from tdq import facts, grammar_cmp as gc, automata as fa
import json
p=facts.program()
c=gc.Comparison(p)
hint=json.load(open('/verif/tdq/c04_cut_hint.json'))['transparent']
C,res,log=c.solve(hint)
print('transparent',sorted(c.shared-C))
c.compare_all(C)
for u in c.units_of['code']:
    if u[0] in('Value','InnerValue','RecordBody','Body','ParentClassList'):
        e=c.eb['code'][u]; print(u,'EB', 'ANY' if e is gc.ANY else ('LBrace' in e, len(e)))
        raw=c.raws['code'][u]
        print('   raw syms',sorted({str(s) for s in raw.symbols() if isinstance(s,tuple) and s[0]=='N'})[:6])
print('Def raw syms', sorted({str(s) for s in c.raws['code'][('Def',0)].symbols() if isinstance(s,tuple) and s[0]=='N'}))
def f(x): return x if isinstance(x,str) else ('<end>' if x is None else str(x))
d=c.resolved['code'][('Value',0)].dfa()
from collections import deque
def words(d,n=8,maxlen=5):
    out=[];dq=deque([(d.start,())])
    while dq and len(out)<n:
        q,w=dq.popleft()
        if q in d.acc: out.append(w)
        if len(w)>=maxlen: continue
        for sy,q2 in sorted(d.out(q),key=str)[:4]: dq.append((q2,w+(sy,)))
    return out
for w in words(d): print('Value0 word',' '.join(map(f,w)))
found,n=c.context_dependence(C)
print(n,found[:5])
