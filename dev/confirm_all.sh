#!/bin/bash
# confirm all variants of the given properties, 3 worktrees in parallel
for id in "$@"; do
  ( for n in 1 2 3; do [ -d /tmp/seed/$id/out/$n ] && /verif/bin/confirm-seed /tmp/seed/$id $n; done ) &
  while [ $(jobs -r | wc -l) -ge 3 ]; do sleep 5; done
done
wait
echo ALLDONE
