import sys,time; sys.path.insert(0,'/verif')
from tdq import facts, grammar_cmp as gc, grammar_sim as gs, docgrammar
p=facts.program()
m=gc.load_model(p)
rules,src=docgrammar.load()
B=int(sys.argv[1]) if len(sys.argv)>1 else 4
ex=gs.Explorer(m,rules,B)
print('doc problems',ex.doc.problems)
# sanity: concrete sentences
def run(toks):
    cs=ex.code.init; ds=(ex.doc.init,None)
    for t in toks:
        cs,_=ex.code.step(cs,t); ds=ex.doc_expand(ds)[0].get(t,(frozenset(),None))
    return (bool(cs) and ex.code.expand(cs)[1], bool(ds[0]) and ex.doc_expand(ds)[1])
for s in ["Defvar Id Equal IntVal Semi","Defvar Equal IntVal Semi","Def Id Semi","Def Id LBrace RBrace","Def Id Paste Id LBrace RBrace","Class Id Less Greater Semi","Defvar Id Equal LSquare RSquare Semi","Defvar Id Equal LParen Id LSquare IntVal RSquare RParen Semi"]:
    print(s,'-> code,doc =',run(s.split()))
t=time.time()
d=ex.run()
print('bound',B,'nodes',ex.nodes,'steps',ex.steps,'diffs',len(d),round(time.time()-t,1),'s')
import collections
c=collections.Counter((x['direction'],tuple(x.get('code_stack',[])[-2:]),x['token']) for x in d)
for k,v in c.most_common(40): print(v,k)
for x in d[:10]: print(x['direction'],' '.join(x['prefix']),'.',x['token'],'|',' '.join(x['completion']))
seenk=set()
for x in d:
    k=(x['direction'],tuple(x.get('code_stack',[])[-2:]),x['token'])
    if k in seenk: continue
    seenk.add(k)
    print(x['direction'],' '.join(x['prefix']),'.',x['token'],'|',' '.join(x['completion']),'   stack',x['code_stack'][-3:],'doc',x['doc_rules'][-3:])
