import sys,time,signal,collections; sys.path.insert(0,'/verif')
from tdq import facts, parser_ai
p=facts.program()
ai=parser_ai.ParserAI(p)
cnt=collections.Counter()
orig=ai.step
def step(ctx,body,b,st,outcomes):
    cnt[ctx[0]]+=1
    return orig(ctx,body,b,st,outcomes)
ai.step=step
def h(sig,frm):
    print('TIMEOUT ctx',len(ai.memo),'evals',ai.contexts_evaluated,'states',ai.states_explored)
    print(cnt.most_common(12))
    sys.exit(1)
signal.signal(signal.SIGALRM,h); signal.alarm(30)
ai.run("syntax::grammar::source_file")
print('done')
