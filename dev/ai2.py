import sys,time; sys.path.insert(0,'/verif')
from tdq import facts, parser_ai
p=facts.program()
ai=parser_ai.ParserAI(p)
ai._done_round=set()
la=frozenset(['Let'])
fn='syntax::grammar::value::simple_value'
ai.changed=False
r=ai.summary(fn,la,False,(parser_ai.SELF,))
for o in r: print(sorted(o[0]),o[1:])
print([k[0] for k in ai.memo if 'cond_operator' in k[0] or 'bang_operator' in k[0]])
print(ai.leftrec.keys())
