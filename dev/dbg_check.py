import faulthandler,sys
faulthandler.dump_traceback_later(int(sys.argv[2]) if len(sys.argv)>2 else 40,exit=True)
pid=sys.argv[1]
sys.argv=['check',pid]; sys.path.insert(0,'/verif')
exec(open('/verif/check').read())
