import sys,time,collections; sys.path.insert(0,'/verif')
from tdq import facts, grammar_cmp as gc, grammar_sim as gs, docgrammar
p=facts.program()
m=gc.load_model(p)
rules,src=docgrammar.load()
cd,dd=int(sys.argv[1]),int(sys.argv[2])
ex=gs.Explorer(m,rules,99,cd,dd)

t=time.time()
d=ex.run(limit_nodes=400000)
print('nodes',ex.nodes,'diffs',len(d),round(time.time()-t,1))
for name,kf in (('K,t',lambda x:(x['direction'],x['code_stack'][-1:],x['token'])),('K2,t',lambda x:(x['direction'],tuple(x['code_stack'][-2:]),x['token'])),('K,prev,t',lambda x:(x['direction'],tuple(x['code_stack'][-1:]),tuple(x['prefix'][-1:]),x['token']))):
    c=collections.Counter(map(lambda x:str(kf(x)),d)); print(name,len(c))
c=collections.OrderedDict()
for x in d:
    k=(x['direction'],tuple(x['code_stack'][-1:]),tuple(x['prefix'][-1:]),x['token'])
    c.setdefault(k,x)
for k,x in c.items(): print(k,'::',' '.join(x['prefix']),'.',x['token'])
