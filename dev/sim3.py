import sys,time; sys.path.insert(0,'/verif')
from tdq import facts, grammar_cmp as gc, grammar_sim as gs, docgrammar
p=facts.program()
m=gc.load_model(p)
rules,src=docgrammar.load()
cd,dd,lim=int(sys.argv[1]),int(sys.argv[2]),int(sys.argv[3])
ex=gs.Explorer(m,rules,99,cd,dd)
ex.complete=lambda side,state,budget: []   # skip completion search for sizing
t=time.time()
d=ex.run(limit_nodes=lim)
print('depth',cd,dd,'nodes',ex.nodes,'steps',ex.steps,'cut',ex.cut_nodes,'truncated',ex.truncated,'diffs',len(d),round(time.time()-t,1),'s')
