import sys,time; sys.path.insert(0,'/verif')
from tdq import facts, grammar_lang as gl, docgrammar, paths
p=facts.program()
t=time.time()
m=gl.CodeModel(p)
print('model',round(time.time()-t,1),'ctx graphs',len(m.graphs),'problems',m.problems[:3])
rules,src=docgrammar.load()
stm=[x[1] for x in rules['Statement'][1]] 
mcs=[x[1] for x in rules['MultiClassStatement'][1]]
cut=set(stm)|set(mcs)|{'Value','ListType'}
node_kinds={w[1] for adj in m.edges.values() for outs in adj.values() for (k,pl,d) in outs if k in('word','pword') for w in (pl if k=='word' else pl[1]) if w[0] in('open','open_at')}
print('node kinds',sorted(node_kinds))
import os
if os.environ.get('BROAD'): cut={k for k in node_kinds if k in rules}
print(sorted(cut))
bang=m.ai._true_set("syntax::token_kind::TokenKind::is_bang_operator")
dm=gl.DocModel(p,rules,set(bang),set())
for kind in (sys.argv[1:] if sys.argv[1:]!=['ALL'] else sorted(cut)):
    t=time.time()
    s,d,a,pr=gl.code_nfa(m,kind,cut)
    print(kind,'code nfa states',len(d),'starts',len(s),'problems',pr[:2],round(time.time()-t,1))
    A=gl.determinize(s,d,a)
    r=dm.nfa(kind,cut)
    if r is None: print('  no doc rule'); continue
    B=gl.determinize(r[0],r[1],r[2]); print('  doc problems',r[3], 'dfa sizes',A[3],B[3])
    print('  code - doc:',gl.witness_not_included(A,B))
    print('  doc - code:',gl.witness_not_included(B,A))
print(dm.notes)
