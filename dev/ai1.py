import sys,time; sys.path.insert(0,'/verif')
from tdq import facts, parser_ai
p=facts.program()
t=time.time()
ai=parser_ai.analyse(p)
print('time',time.time()-t,'rounds',ai.rounds,'ctx',len(ai.memo),'evals',ai.contexts_evaluated,'states',ai.states_explored)
print('panics'); 
for k,v in ai.panics.items(): print('  ',k,v['callee'],v['where'],sorted(v['la'])[:8])
print('noprogress',ai.noprogress)
print('leftrec',ai.leftrec)
print('balance',ai.balance)
print('unsupported',ai.unsupported)
print('children')
for k,v in sorted(ai.children.items()):
    print('  ',k)
    for c,e in sorted(v): print('      ','ERR' if e else 'ok ',{k:(lo,hi) for k,lo,hi in c})
print('firsts')
for k,v in sorted(ai.firsts.items()): print('  ',k,[sorted(x) for x in v][:4])
