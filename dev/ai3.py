import sys,time,signal,collections; sys.path.insert(0,'/verif')
from tdq import facts, parser_ai
p=facts.program()
ai=parser_ai.ParserAI(p)
def h(sig,frm):
    print('TIMEOUT ctx',len(ai.memo),'evals',ai.contexts_evaluated,'states',ai.states_explored)
    c=collections.Counter(k[0] for k in ai.memo)
    print(c.most_common(15))
    print('active',[a[0][0] for a in ai.active])
    fn=c.most_common(1)[0][0]
    ks=[k for k in ai.memo if k[0]==fn][:6]
    for k in ks: print(sorted(k[1])[:6],len(k[1]),k[2],k[3])
    oc=collections.Counter({k:len(v) for k,v in ai.memo.items()})
    for k,n in oc.most_common(5): print(n,k[0],len(k[1]),k[3]); 
    k=oc.most_common(1)[0][0]
    for o in list(ai.memo[k])[:12]: print('   ',len(o[0]),o[1:])
    sys.exit(1)
signal.signal(signal.SIGALRM,h); signal.alarm(40)
ai.run("syntax::grammar::source_file")
print('done')
