// mirfacts: a rustc_private driver that dumps type-resolved program facts (MIR CFGs with
// resolved callees, evaluated constants, ADTs, impls) of one crate as a JSON file.
//
// Used as RUSTC_WORKSPACE_WRAPPER: argv = [mirfacts, <rustc>, <rustc args...>].
// Output: $MIRFACTS_OUT/<crate_name>.<crate_type>.json (one write per process).
#![feature(rustc_private)]

extern crate rustc_abi;
extern crate rustc_driver;
extern crate rustc_hir;
extern crate rustc_interface;
extern crate rustc_middle;
extern crate rustc_span;

use std::collections::HashSet;
use std::fmt::Write as _;

use rustc_driver::Compilation;
use rustc_hir::def::DefKind;
use rustc_hir::def_id::{DefId, LOCAL_CRATE};
use rustc_middle::mir::{
    self, AggregateKind, BasicBlockData, Body, Operand, Place, ProjectionElem, Rvalue,
    StatementKind, TerminatorKind,
};
use rustc_middle::ty::print::{with_crate_prefix, with_no_trimmed_paths};
use rustc_middle::ty::{self, Instance, Ty, TyCtxt, TypingEnv};
use rustc_span::Span;

mod json;
use json::J;

struct Cb;

impl rustc_driver::Callbacks for Cb {
    fn after_analysis<'tcx>(
        &mut self,
        _compiler: &rustc_interface::interface::Compiler,
        tcx: TyCtxt<'tcx>,
    ) -> Compilation {
        if let Ok(dir) = std::env::var("MIRFACTS_OUT") {
            dump(tcx, &dir);
        }
        Compilation::Continue
    }
}

fn main() {
    let mut args: Vec<String> = std::env::args().collect();
    // RUSTC_WORKSPACE_WRAPPER passes the real rustc as argv[1]
    if args.len() > 1 && (args[1].ends_with("rustc") || args[1].contains("/rustc")) {
        args.remove(1);
    }
    rustc_driver::run_compiler(&args, &mut Cb);
}

struct Cx<'tcx> {
    tcx: TyCtxt<'tcx>,
    krate: String,
    adts: HashSet<DefId>,
}

impl<'tcx> Cx<'tcx> {
    fn fix(&self, s: String) -> String {
        // with_crate_prefix prints local paths as `crate::…`; make them crate-qualified
        s.replace("crate::", &format!("{}::", self.krate))
    }

    fn path(&self, def_id: DefId) -> String {
        let s = with_no_trimmed_paths!(with_crate_prefix!(self.tcx.def_path_str(def_id)));
        self.fix(s)
    }

    fn ty(&self, ty: Ty<'tcx>) -> String {
        let s = with_no_trimmed_paths!(with_crate_prefix!(ty.to_string()));
        self.fix(s)
    }

    fn line(&self, span: Span) -> J {
        let sm = self.tcx.sess.source_map();
        let sp = if span.from_expansion() { span.source_callsite() } else { span };
        let loc = sm.lookup_char_pos(sp.lo());
        J::Num(loc.line as i128)
    }

    fn file_line(&self, span: Span) -> String {
        let sm = self.tcx.sess.source_map();
        let sp = if span.from_expansion() { span.source_callsite() } else { span };
        let loc = sm.lookup_char_pos(sp.lo());
        format!("{}:{}", loc.file.name.prefer_local_unconditionally(), loc.line)
    }

    fn macro_name(&self, span: Span) -> Option<String> {
        if !span.from_expansion() {
            return None;
        }
        // outermost macro of the expansion chain that is written in user code
        let mut names: Vec<String> = Vec::new();
        for ex in span.macro_backtrace() {
            names.push(ex.kind.descr());
        }
        if names.is_empty() {
            None
        } else {
            Some(names.join("<"))
        }
    }

    fn place(&mut self, body: &Body<'tcx>, p: &Place<'tcx>) -> J {
        let mut proj = Vec::new();
        for (base, elem) in p.iter_projections() {
            let j = match elem {
                ProjectionElem::Deref => J::str("*"),
                ProjectionElem::Field(f, fty) => {
                    let bty = base.ty(body, self.tcx);
                    let mut name = None;
                    if let ty::Adt(adt, _) = bty.ty.kind() {
                        if !adt.is_union() {
                            let v = bty.variant_index.unwrap_or(rustc_abi::FIRST_VARIANT);
                            if adt.variants().len() > v.as_usize() {
                                let fd = &adt.variant(v).fields[f];
                                name = Some(fd.name.to_string());
                            }
                        }
                    }
                    let mut o = vec![("f", J::Num(f.as_usize() as i128))];
                    if let Some(n) = name {
                        o.push(("n", J::Str(n)));
                    }
                    o.push(("t", J::Str(self.ty(fty))));
                    J::obj(o)
                }
                ProjectionElem::Index(l) => J::obj(vec![("idx", J::Num(l.as_usize() as i128))]),
                ProjectionElem::ConstantIndex { offset, from_end, .. } => J::obj(vec![
                    ("cidx", J::Num(offset as i128)),
                    ("from_end", J::Bool(from_end)),
                ]),
                ProjectionElem::Subslice { .. } => J::str("subslice"),
                ProjectionElem::Downcast(name, idx) => J::obj(vec![
                    ("dc", J::Num(idx.as_usize() as i128)),
                    ("n", name.map(|s| J::Str(s.to_string())).unwrap_or(J::Null)),
                ]),
                ProjectionElem::OpaqueCast(_) => J::str("opaque"),
                ProjectionElem::UnwrapUnsafeBinder(_) => J::str("unwrap_binder"),
            };
            proj.push(j);
        }
        J::obj(vec![("l", J::Num(p.local.as_usize() as i128)), ("p", J::Arr(proj))])
    }

    fn generic_args(&mut self, args: ty::GenericArgsRef<'tcx>) -> J {
        let mut v = Vec::new();
        for a in args.iter() {
            match a.kind() {
                ty::GenericArgKind::Type(t) => v.push(self.ty_ref(t)),
                ty::GenericArgKind::Const(c) => v.push(J::obj(vec![("const", J::Str(format!("{c}")))])),
                ty::GenericArgKind::Lifetime(_) => {}
            }
        }
        J::Arr(v)
    }

    // a type reference with structure where it is useful (fn items, closures)
    fn ty_ref(&mut self, t: Ty<'tcx>) -> J {
        match t.kind() {
            ty::FnDef(d, a) => {
                let (d2, _a2, how) = self.resolve(*d, a);
                J::obj(vec![("fn", J::Str(self.path(d2))), ("how", J::str(how)), ("ty", J::Str(self.ty(t)))])
            }
            ty::Closure(d, _) => J::obj(vec![("closure", J::Str(self.path(*d))), ("ty", J::Str(self.ty(t)))]),
            _ => J::obj(vec![("ty", J::Str(self.ty(t)))]),
        }
    }

    fn resolve(
        &self,
        def: DefId,
        args: ty::GenericArgsRef<'tcx>,
    ) -> (DefId, ty::GenericArgsRef<'tcx>, &'static str) {
        let tcx = self.tcx;
        if !matches!(tcx.def_kind(def), DefKind::Fn | DefKind::AssocFn) {
            return (def, args, "direct");
        }
        let env = TypingEnv::post_analysis(tcx, def);
        // resolution needs the caller's env only for param bounds; args with params may not resolve
        match Instance::try_resolve(tcx, env, def, args) {
            Ok(Some(inst)) => match inst.def {
                ty::InstanceKind::Item(d) => (d, inst.args, "static"),
                ty::InstanceKind::Virtual(d, _) => (d, args, "virtual"),
                ty::InstanceKind::ClosureOnceShim { call_once, .. } => (call_once, args, "closure_once_shim"),
                ty::InstanceKind::FnPtrShim(d, _) => (d, args, "fnptr_shim"),
                ty::InstanceKind::DropGlue(d, _) => (d, args, "drop_glue"),
                ty::InstanceKind::CloneShim(d, _) => (d, args, "clone_shim"),
                ty::InstanceKind::Intrinsic(d) => (d, args, "intrinsic"),
                ty::InstanceKind::ReifyShim(d, _) => (d, args, "reify"),
                ty::InstanceKind::VTableShim(d) => (d, args, "vtable_shim"),
                _ => (def, args, "other_shim"),
            },
            _ => (def, args, "unresolved"),
        }
    }

    fn constant(&mut self, caller: DefId, c: &mir::ConstOperand<'tcx>) -> J {
        let tcx = self.tcx;
        let cty = c.const_.ty();
        if let ty::FnDef(d, a) = cty.kind() {
            let (d2, a2, how) = self.resolve_in(caller, *d, a);
            return J::obj(vec![
                ("fn", J::Str(self.path(d2))),
                ("decl", J::Str(self.path(*d))),
                ("how", J::str(how)),
                ("args", self.generic_args(a2)),
                ("local", J::Bool(d2.is_local())),
                ("krate", J::Str(tcx.crate_name(d2.krate).to_string())),
            ]);
        }
        let mut o = vec![("ty", J::Str(self.ty(cty)))];
        if let mir::Const::Unevaluated(uv, _) = c.const_ {
            o.push(("item", J::Str(self.path(uv.def))));
            if let Some(p) = uv.promoted {
                o.push(("promoted", J::Num(p.as_usize() as i128)));
            }
        }
        let env = TypingEnv::post_analysis(tcx, caller);
        let shown = match c.const_.eval(tcx, env, c.span) {
            Ok(val) => {
                if let Some(s) = val.try_to_scalar_int() {
                    o.push(("int", J::Num(s.to_bits_unchecked() as i128)));
                }
                // a reference to a (promoted) array/ADT: show the pointee, not the allocation id
                let mut shown = None;
                if let ty::Ref(_, inner, _) = cty.kind() {
                    if !inner.is_str() && !inner.is_slice() {
                        if let mir::ConstValue::Scalar(rustc_middle::mir::interpret::Scalar::Ptr(ptr, _)) = val {
                            let (prov, offset) = ptr.prov_and_relative_offset();
                            let k = mir::Const::Val(
                                mir::ConstValue::Indirect { alloc_id: prov.alloc_id(), offset },
                                *inner,
                            );
                            shown = Some(format!("&{}", with_no_trimmed_paths!(with_crate_prefix!(format!("{k}")))));
                        }
                    }
                }
                // a reference to a slice of constants (`const WORDS: &[&str] = &[..]`): show it as the array it points to
                if let ty::Ref(_, inner, _) = cty.kind() {
                    if let ty::Slice(elem) = inner.kind() {
                        if let Some((alloc_id, offset, len)) = slice_parts(tcx, val) {
                            let arr = Ty::new_array(tcx, *elem, len);
                            let k = mir::Const::Val(mir::ConstValue::Indirect { alloc_id, offset }, arr);
                            shown = Some(format!("&{}", with_no_trimmed_paths!(with_crate_prefix!(format!("{k}")))));
                            o.push(("slice_len", J::Num(len as i128)));
                        }
                    }
                }
                match shown {
                    Some(s) => s,
                    None => {
                        let k = mir::Const::Val(val, cty);
                        with_no_trimmed_paths!(with_crate_prefix!(format!("{k}")))
                    }
                }
            }
            Err(_) => with_no_trimmed_paths!(with_crate_prefix!(format!("{}", c.const_))),
        };
        o.push(("val", J::Str(self.fix(shown))));
        J::obj(vec![("const", J::obj(o))])
    }

    fn resolve_in(
        &self,
        caller: DefId,
        def: DefId,
        args: ty::GenericArgsRef<'tcx>,
    ) -> (DefId, ty::GenericArgsRef<'tcx>, &'static str) {
        let tcx = self.tcx;
        if !matches!(tcx.def_kind(def), DefKind::Fn | DefKind::AssocFn) {
            return (def, args, "direct");
        }
        let env = TypingEnv::post_analysis(tcx, caller);
        match Instance::try_resolve(tcx, env, def, args) {
            Ok(Some(inst)) => match inst.def {
                ty::InstanceKind::Item(d) => (d, inst.args, "static"),
                ty::InstanceKind::Virtual(d, _) => (d, args, "virtual"),
                ty::InstanceKind::ClosureOnceShim { call_once, .. } => (call_once, args, "closure_once_shim"),
                ty::InstanceKind::FnPtrShim(d, _) => (d, args, "fnptr_shim"),
                ty::InstanceKind::DropGlue(d, _) => (d, args, "drop_glue"),
                ty::InstanceKind::CloneShim(d, _) => (d, args, "clone_shim"),
                ty::InstanceKind::Intrinsic(d) => (d, args, "intrinsic"),
                ty::InstanceKind::ReifyShim(d, _) => (d, args, "reify"),
                ty::InstanceKind::VTableShim(d) => (d, args, "vtable_shim"),
                _ => (def, args, "other_shim"),
            },
            _ => (def, args, "unresolved"),
        }
    }

    fn operand(&mut self, caller: DefId, body: &Body<'tcx>, op: &Operand<'tcx>) -> J {
        match op {
            Operand::Copy(p) => J::obj(vec![("copy", self.place(body, p))]),
            Operand::Move(p) => J::obj(vec![("move", self.place(body, p))]),
            Operand::Constant(c) => self.constant(caller, c),
            _ => J::obj(vec![("other", J::Str(format!("{op:?}")))]),
        }
    }

    fn rvalue(&mut self, caller: DefId, body: &Body<'tcx>, rv: &Rvalue<'tcx>) -> J {
        match rv {
            Rvalue::Use(op, ..) => J::obj(vec![("use", self.operand(caller, body, op))]),
            Rvalue::Ref(_, bk, p) => J::obj(vec![
                ("ref", self.place(body, p)),
                ("mut", J::Bool(matches!(bk, mir::BorrowKind::Mut { .. }))),
            ]),
            Rvalue::RawPtr(_, p) => J::obj(vec![("rawptr", self.place(body, p))]),
            Rvalue::Cast(kind, op, ty) => J::obj(vec![
                ("cast", self.operand(caller, body, op)),
                ("kind", J::Str(format!("{kind:?}"))),
                ("to", J::Str(self.ty(*ty))),
            ]),
            Rvalue::BinaryOp(op, ab) => J::obj(vec![
                ("binop", J::Str(format!("{op:?}"))),
                ("a", self.operand(caller, body, &ab.0)),
                ("b", self.operand(caller, body, &ab.1)),
            ]),
            Rvalue::UnaryOp(op, a) => J::obj(vec![
                ("unop", J::Str(format!("{op:?}"))),
                ("a", self.operand(caller, body, a)),
            ]),
            Rvalue::Discriminant(p) => {
                let pty = p.ty(body, self.tcx).ty;
                if let ty::Adt(adt, _) = pty.kind() {
                    self.adts.insert(adt.did());
                }
                J::obj(vec![("discr", self.place(body, p)), ("of", J::Str(self.ty(pty)))])
            }
            Rvalue::Aggregate(kind, ops) => {
                let opsj: Vec<J> = ops.iter().map(|o| self.operand(caller, body, o)).collect();
                let k = match &**kind {
                    AggregateKind::Array(t) => J::obj(vec![("array", J::Str(self.ty(*t)))]),
                    AggregateKind::Tuple => J::str("tuple"),
                    AggregateKind::Adt(d, v, _, _, _) => {
                        self.adts.insert(*d);
                        let adt = self.tcx.adt_def(*d);
                        let vn = adt.variant(*v).name.to_string();
                        J::obj(vec![
                            ("adt", J::Str(self.path(*d))),
                            ("variant", J::Str(vn)),
                            ("vidx", J::Num(v.as_usize() as i128)),
                        ])
                    }
                    AggregateKind::Closure(d, _) => J::obj(vec![("closure", J::Str(self.path(*d)))]),
                    AggregateKind::Coroutine(d, _) => J::obj(vec![("coroutine", J::Str(self.path(*d)))]),
                    AggregateKind::CoroutineClosure(d, _) => {
                        J::obj(vec![("coroutine_closure", J::Str(self.path(*d)))])
                    }
                    AggregateKind::RawPtr(..) => J::str("rawptr"),
                };
                J::obj(vec![("agg", k), ("ops", J::Arr(opsj))])
            }
            Rvalue::CopyForDeref(p) => J::obj(vec![("use", J::obj(vec![("copy", self.place(body, p))]))]),
            Rvalue::Repeat(op, n) => J::obj(vec![
                ("repeat", self.operand(caller, body, op)),
                ("n", J::Str(format!("{n}"))),
            ]),
            Rvalue::ThreadLocalRef(d) => J::obj(vec![("tls", J::Str(self.path(*d)))]),
            other => J::obj(vec![("other", J::Str(format!("{other:?}")))]),
        }
    }

    fn block(&mut self, caller: DefId, body: &Body<'tcx>, bb: &BasicBlockData<'tcx>) -> J {
        let mut stmts = Vec::new();
        for st in &bb.statements {
            match &st.kind {
                StatementKind::Assign(b) => {
                    let (p, rv) = &**b;
                    stmts.push(J::obj(vec![
                        ("a", self.place(body, p)),
                        ("rv", self.rvalue(caller, body, rv)),
                        ("ln", self.line(st.source_info.span)),
                    ]));
                }
                StatementKind::SetDiscriminant { place, variant_index } => {
                    stmts.push(J::obj(vec![
                        ("setdiscr", self.place(body, place)),
                        ("vidx", J::Num(variant_index.as_usize() as i128)),
                    ]));
                }
                _ => {}
            }
        }
        let term = bb.terminator();
        let span = term.source_info.span;
        let mut t: Vec<(&'static str, J)> = vec![("ln", self.line(span))];
        if let Some(m) = self.macro_name(span) {
            t.push(("mac", J::Str(m)));
        }
        match &term.kind {
            TerminatorKind::Goto { target } => {
                t.push(("k", J::str("goto")));
                t.push(("t", J::Num(target.as_usize() as i128)));
            }
            TerminatorKind::SwitchInt { discr, targets } => {
                t.push(("k", J::str("switch")));
                t.push(("d", self.operand(caller, body, discr)));
                let mut arms = Vec::new();
                for (v, b) in targets.iter() {
                    arms.push(J::Arr(vec![J::Num(v as i128), J::Num(b.as_usize() as i128)]));
                }
                t.push(("arms", J::Arr(arms)));
                t.push(("else", J::Num(targets.otherwise().as_usize() as i128)));
            }
            TerminatorKind::Return => t.push(("k", J::str("return"))),
            TerminatorKind::Unreachable => t.push(("k", J::str("unreachable"))),
            TerminatorKind::UnwindResume => t.push(("k", J::str("resume"))),
            TerminatorKind::UnwindTerminate(_) => t.push(("k", J::str("terminate"))),
            TerminatorKind::Drop { place, target, .. } => {
                t.push(("k", J::str("drop")));
                t.push(("place", self.place(body, place)));
                let pty = place.ty(body, self.tcx).ty;
                t.push(("ty", J::Str(self.ty(pty))));
                t.push(("t", J::Num(target.as_usize() as i128)));
            }
            TerminatorKind::Call { func, args, destination, target, .. } => {
                t.push(("k", J::str("call")));
                t.push(("f", self.operand(caller, body, func)));
                let a: Vec<J> = args.iter().map(|s| self.operand(caller, body, &s.node)).collect();
                t.push(("args", J::Arr(a)));
                t.push(("dest", self.place(body, destination)));
                t.push(("t", target.map(|b| J::Num(b.as_usize() as i128)).unwrap_or(J::Null)));
            }
            TerminatorKind::TailCall { func, args, .. } => {
                t.push(("k", J::str("tailcall")));
                t.push(("f", self.operand(caller, body, func)));
                let a: Vec<J> = args.iter().map(|s| self.operand(caller, body, &s.node)).collect();
                t.push(("args", J::Arr(a)));
            }
            TerminatorKind::Assert { cond, expected, msg, target, .. } => {
                t.push(("k", J::str("assert")));
                t.push(("cond", self.operand(caller, body, cond)));
                t.push(("expected", J::Bool(*expected)));
                let m = format!("{msg:?}");
                let kind = m.split(|c: char| !c.is_alphanumeric()).next().unwrap_or("").to_string();
                t.push(("msg", J::Str(kind)));
                t.push(("t", J::Num(target.as_usize() as i128)));
            }
            TerminatorKind::FalseEdge { real_target, .. } => {
                t.push(("k", J::str("goto")));
                t.push(("t", J::Num(real_target.as_usize() as i128)));
            }
            TerminatorKind::FalseUnwind { real_target, .. } => {
                t.push(("k", J::str("goto")));
                t.push(("t", J::Num(real_target.as_usize() as i128)));
            }
            other => {
                t.push(("k", J::str("other")));
                t.push(("dbg", J::Str(format!("{other:?}"))));
            }
        }
        J::obj(vec![
            ("cleanup", J::Bool(bb.is_cleanup)),
            ("s", J::Arr(stmts)),
            ("term", J::obj(t)),
        ])
    }

    fn body(&mut self, def: DefId, body: &Body<'tcx>, kind: &str) -> J {
        let tcx = self.tcx;
        let mut locals = Vec::new();
        let mut names: Vec<Option<String>> = vec![None; body.local_decls.len()];
        for vdi in &body.var_debug_info {
            if let mir::VarDebugInfoContents::Place(p) = &vdi.value {
                if p.projection.is_empty() {
                    names[p.local.as_usize()] = Some(vdi.name.to_string());
                }
            }
        }
        for (i, ld) in body.local_decls.iter().enumerate() {
            let mut o = vec![("t", J::Str(self.ty(ld.ty)))];
            if let Some(n) = &names[i] {
                o.push(("n", J::Str(n.clone())));
            }
            locals.push(J::obj(o));
        }
        let blocks: Vec<J> = body.basic_blocks.iter().map(|bb| self.block(def, body, bb)).collect();
        let span = tcx.def_span(def);
        let mut o = vec![
            ("path", J::Str(self.path(def))),
            ("kind", J::str(kind)),
            ("defkind", J::Str(format!("{:?}", tcx.def_kind(def)))),
            ("loc", J::Str(self.file_line(span))),
            ("expn", J::Bool(span.from_expansion())),
            ("argc", J::Num(body.arg_count as i128)),
            ("locals", J::Arr(locals)),
            ("blocks", J::Arr(blocks)),
        ];
        if matches!(tcx.def_kind(def), DefKind::Fn | DefKind::AssocFn) {
            o.push(("vis", J::Str(format!("{:?}", tcx.visibility(def)))));
        }
        // generic type parameters in substitution order (parents first)
        {
            let root = tcx.typeck_root_def_id(def);
            let mut names: Vec<J> = Vec::new();
            let mut chain = Vec::new();
            let mut g = Some(tcx.generics_of(root));
            while let Some(gen) = g {
                chain.push(gen);
                g = gen.parent.map(|p| tcx.generics_of(p));
            }
            for gen in chain.iter().rev() {
                for p in &gen.own_params {
                    if matches!(p.kind, ty::GenericParamDefKind::Type { .. } | ty::GenericParamDefKind::Const { .. }) {
                        names.push(J::Str(p.name.to_string()));
                    }
                }
            }
            o.push(("generics", J::Arr(names)));
        }
        if matches!(tcx.def_kind(def), DefKind::Closure) {
            if let Some(ldid) = def.as_local() {
                let mut ups = Vec::new();
                for cap in tcx.closure_captures(ldid) {
                    let t = cap.place.ty();
                    ups.push(J::obj(vec![
                        ("n", J::Str(cap.var_ident.name.to_string())),
                        ("t", J::Str(self.ty(t))),
                        ("by_ref", J::Bool(matches!(cap.info.capture_kind, ty::UpvarCapture::ByRef(_)))),
                    ]));
                }
                o.push(("upvars", J::Arr(ups)));
            }
        }
        // enclosing impl (trait + self type) for associated fns
        if let Some(parent) = tcx.opt_parent(def) {
            if matches!(tcx.def_kind(parent), DefKind::Impl { .. }) {
                let self_ty = tcx.type_of(parent).instantiate_identity().skip_norm_wip();
                o.push(("impl_self", J::Str(self.ty(self_ty))));
                if let Some(tr) = tcx.impl_opt_trait_ref(parent) {
                    let tr = tr.instantiate_identity().skip_norm_wip();
                    o.push(("impl_trait", J::Str(self.path(tr.def_id))));
                }
            }
            if matches!(tcx.def_kind(def), DefKind::Closure) {
                o.push(("parent", J::Str(self.path(parent))));
            }
        }
        J::obj(o)
    }
}

fn dump(tcx: TyCtxt<'_>, dir: &str) {
    let krate = tcx.crate_name(LOCAL_CRATE).to_string();
    let ctype = tcx
        .crate_types()
        .first()
        .map(|c| format!("{c:?}").to_lowercase())
        .unwrap_or_else(|| "unknown".into());
    let mut cx = Cx { tcx, krate: krate.clone(), adts: HashSet::new() };

    let mut bodies = Vec::new();
    let mut consts = Vec::new();
    for ldid in tcx.hir_body_owners() {
        let def = ldid.to_def_id();
        match tcx.def_kind(def) {
            DefKind::Fn | DefKind::AssocFn | DefKind::Closure => {
                if tcx.is_constructor(def) {
                    continue;
                }
                let body = tcx.optimized_mir(def);
                bodies.push(cx.body(def, body, "fn"));
            }
            DefKind::Const { .. } | DefKind::AssocConst { .. } | DefKind::Static { .. } => {
                let t = tcx.type_of(def).instantiate_identity().skip_norm_wip();
                let mut o = vec![
                    ("path", J::Str(cx.path(def))),
                    ("ty", J::Str(cx.ty(t))),
                    ("defkind", J::Str(format!("{:?}", tcx.def_kind(def)))),
                    ("loc", J::Str(cx.file_line(tcx.def_span(def)))),
                ];
                if !tcx.generics_of(def).requires_monomorphization(tcx)
                    && matches!(tcx.def_kind(def), DefKind::Const { .. } | DefKind::AssocConst { .. })
                {
                    if let Ok(val) = tcx.const_eval_poly(def) {
                        let k = mir::Const::Val(val, t);
                        let s = with_no_trimmed_paths!(with_crate_prefix!(format!("{k}")));
                        o.push(("val", J::Str(cx.fix(s))));
                    }
                }
                consts.push(J::obj(o));
            }
            _ => {}
        }
    }

    // impls and traits
    let mut impls = Vec::new();
    let mut traits = Vec::new();
    for id in tcx.hir_free_items() {
        let def = id.owner_id.to_def_id();
        match tcx.def_kind(def) {
            DefKind::Impl { .. } => {
                let self_ty = tcx.type_of(def).instantiate_identity().skip_norm_wip();
                if let ty::Adt(adt, _) = self_ty.kind() {
                    cx.adts.insert(adt.did());
                }
                let mut o = vec![
                    ("self", J::Str(cx.ty(self_ty))),
                    ("loc", J::Str(cx.file_line(tcx.def_span(def)))),
                    ("expn", J::Bool(tcx.def_span(def).from_expansion())),
                ];
                if let Some(tr) = tcx.impl_opt_trait_ref(def) {
                    let tr = tr.instantiate_identity().skip_norm_wip();
                    o.push(("trait", J::Str(cx.path(tr.def_id))));
                    o.push(("trait_ref", J::Str(cx.fix(with_no_trimmed_paths!(with_crate_prefix!(format!("{tr}")))))));
                }
                let mut items = Vec::new();
                for it in tcx.associated_items(def).in_definition_order() {
                    let mut io = vec![
                        ("name", J::Str(it.name().to_string())),
                        ("path", J::Str(cx.path(it.def_id))),
                        ("kind", J::Str(format!("{:?}", it.tag()))),
                    ];
                    if let Some(tid) = it.trait_item_def_id() {
                        io.push(("trait_item", J::Str(cx.path(tid))));
                    }
                    items.push(J::obj(io));
                }
                o.push(("items", J::Arr(items)));
                impls.push(J::obj(o));
            }
            DefKind::Trait => {
                let mut items = Vec::new();
                for it in tcx.associated_items(def).in_definition_order() {
                    items.push(J::obj(vec![
                        ("name", J::Str(it.name().to_string())),
                        ("path", J::Str(cx.path(it.def_id))),
                        ("kind", J::Str(format!("{:?}", it.tag()))),
                        ("has_default", J::Bool(it.defaultness(tcx).has_value())),
                    ]));
                }
                traits.push(J::obj(vec![
                    ("path", J::Str(cx.path(def))),
                    ("loc", J::Str(cx.file_line(tcx.def_span(def)))),
                    ("items", J::Arr(items)),
                ]));
            }
            DefKind::Struct | DefKind::Enum => {
                cx.adts.insert(def);
            }
            _ => {}
        }
    }

    // ADTs (local ones and every foreign one mentioned in a discriminant read / aggregate)
    let mut adts = Vec::new();
    let mut adt_ids: Vec<DefId> = cx.adts.iter().copied().collect();
    adt_ids.sort_by_key(|d| cx.path(*d));
    for d in adt_ids {
        let adt = tcx.adt_def(d);
        if adt.is_union() {
            continue;
        }
        let mut variants = Vec::new();
        if adt.is_enum() {
            for (vi, discr) in adt.discriminants(tcx) {
                let v = adt.variant(vi);
                let fields: Vec<J> = v
                    .fields
                    .iter()
                    .map(|f| {
                        let t = tcx.type_of(f.did).instantiate_identity().skip_norm_wip();
                        J::obj(vec![("n", J::Str(f.name.to_string())), ("t", J::Str(cx.ty(t)))])
                    })
                    .collect();
                variants.push(J::obj(vec![
                    ("name", J::Str(v.name.to_string())),
                    ("idx", J::Num(vi.as_usize() as i128)),
                    ("discr", J::Num(discr.val as i128)),
                    ("fields", J::Arr(fields)),
                ]));
            }
        } else {
            let v = adt.non_enum_variant();
            let fields: Vec<J> = v
                .fields
                .iter()
                .map(|f| {
                    let t = tcx.type_of(f.did).instantiate_identity().skip_norm_wip();
                    J::obj(vec![("n", J::Str(f.name.to_string())), ("t", J::Str(cx.ty(t)))])
                })
                .collect();
            variants.push(J::obj(vec![
                ("name", J::Str(v.name.to_string())),
                ("idx", J::Num(0)),
                ("discr", J::Num(0)),
                ("fields", J::Arr(fields)),
            ]));
        }
        adts.push(J::obj(vec![
            ("path", J::Str(cx.path(d))),
            ("is_enum", J::Bool(adt.is_enum())),
            ("local", J::Bool(d.is_local())),
            ("variants", J::Arr(variants)),
        ]));
    }

    let root = J::obj(vec![
        ("crate", J::Str(krate.clone())),
        ("crate_type", J::Str(ctype.clone())),
        ("bodies", J::Arr(bodies)),
        ("consts", J::Arr(consts)),
        ("impls", J::Arr(impls)),
        ("traits", J::Arr(traits)),
        ("adts", J::Arr(adts)),
    ]);
    let mut out = String::new();
    root.write(&mut out);
    let _ = write!(out, "\n");
    let path = format!("{dir}/{krate}.{ctype}.json");
    std::fs::write(&path, out).expect("mirfacts: cannot write fact file");
}


/// (allocation, offset, length) of the data a constant `&[T]` points to
fn slice_parts<'tcx>(
    tcx: TyCtxt<'tcx>,
    val: mir::ConstValue,
) -> Option<(rustc_middle::mir::interpret::AllocId, rustc_abi::Size, u64)> {
    use rustc_middle::mir::interpret::{alloc_range, Scalar};
    match val {
        mir::ConstValue::Slice { alloc_id, meta } => Some((alloc_id, rustc_abi::Size::ZERO, meta)),
        mir::ConstValue::Indirect { alloc_id, offset } => {
            let alloc = tcx.global_alloc(alloc_id).unwrap_memory();
            let a = alloc.inner();
            let ps = tcx.data_layout.pointer_size();
            let ptr = a.read_scalar(&tcx, alloc_range(offset, ps), true).ok()?;
            let len = a.read_scalar(&tcx, alloc_range(offset + ps, ps), false).ok()?;
            let len = len.to_target_usize(&tcx).discard_err()?;
            if let Scalar::Ptr(p, _) = ptr {
                let (prov, off) = p.prov_and_relative_offset();
                return Some((prov.alloc_id(), off, len));
            }
            None
        }
        _ => None,
    }
}
