use async_lsp::lsp_types::Position;
use ide::line_index::LineIndex;
use lsp::{from_proto, to_proto};
use text_size::TextSize;

// independent reference mapper: lines end at LF, CR, CRLF only
fn line_starts(text: &str) -> Vec<usize> {
    let b = text.as_bytes();
    let mut v = vec![0];
    let mut i = 0;
    while i < b.len() {
        if b[i] == b'\n' {
            v.push(i + 1);
        } else if b[i] == b'\r' {
            if i + 1 < b.len() && b[i + 1] == b'\n' {
                i += 1;
            }
            v.push(i + 1);
        }
        i += 1;
    }
    v
}

fn ref_to_pos(text: &str, off: usize) -> (u32, u32) {
    let ls = line_starts(text);
    let line = match ls.binary_search(&off) {
        Ok(i) => i,
        Err(i) => i - 1,
    };
    // an offset between CR and LF of a CRLF belongs to the line before
    let col: usize = text[ls[line]..off].chars().map(|c| c.len_utf16()).sum();
    (line as u32, col as u32)
}

fn line_end(text: &str, ls: &[usize], line: usize) -> usize {
    let end = if line + 1 < ls.len() { ls[line + 1] } else { text.len() };
    let mut e = end;
    let b = text.as_bytes();
    if line + 1 < ls.len() {
        if e > ls[line] && b[e - 1] == b'\n' {
            e -= 1;
            if e > ls[line] && b[e - 1] == b'\r' {
                e -= 1;
            }
        } else if e > ls[line] && b[e - 1] == b'\r' {
            e -= 1;
        }
    }
    e
}

fn ref_from_pos(text: &str, line: u32, col: u32) -> usize {
    let ls = line_starts(text);
    if line as usize >= ls.len() {
        return text.len();
    }
    let start = ls[line as usize];
    let end = line_end(text, &ls, line as usize);
    let mut cu = 0u32;
    let mut off = start;
    for c in text[start..end].chars() {
        if cu >= col {
            break;
        }
        cu += c.len_utf16() as u32;
        if cu > col {
            // column inside a surrogate pair: stay before the character
            break;
        }
        off += c.len_utf8();
    }
    off
}

fn check(text: &str) {
    let li = LineIndex::new(text);
    for off in 0..=text.len() {
        if !text.is_char_boundary(off) {
            continue;
        }
        // an offset strictly inside a CRLF pair is not a position an analysis produces
        let p = to_proto::position(&li, TextSize::from(off as u32));
        let (rl, rc) = ref_to_pos(text, off);
        let b = text.as_bytes();
        let inside_crlf = off > 0 && off < b.len() && b[off - 1] == b'\r' && b[off] == b'\n';
        if !inside_crlf {
            assert_eq!((p.line, p.character), (rl, rc), "to_proto {:?} off {}", text, off);
            let back = from_proto::position(&li, p);
            assert_eq!(usize::from(back), off, "round trip {:?} off {}", text, off);
        }
    }
    let nlines = line_starts(text).len() as u32;
    for line in 0..=nlines + 1 {
        for col in 0..=(text.len() as u32 + 2) {
            let got = usize::from(from_proto::position(&li, Position::new(line, col)));
            let want = ref_from_pos(text, line, col);
            assert_eq!(got, want, "from_proto {:?} ({}, {})", text, line, col);
        }
    }
}

#[test]
fn exhaustive_small_strings() {
    let alphabet = ["a", " ", "\n", "\r", "\u{e9}", "\u{3042}", "\u{1F600}", "\u{c}", "\u{2028}"];
    let mut n = 0u64;
    for len in 0..=5usize {
        let mut idx = vec![0usize; len];
        loop {
            let s: String = idx.iter().map(|&i| alphabet[i]).collect();
            check(&s);
            n += 1;
            let mut k = 0;
            while k < len {
                idx[k] += 1;
                if idx[k] < alphabet.len() {
                    break;
                }
                idx[k] = 0;
                k += 1;
            }
            if k == len {
                break;
            }
        }
    }
    println!("checked {} strings", n);
}
