#!/usr/bin/env python3
"""Deadlock demo for tablegen-lsp (vfs RwLock vs. salsa snapshot).

usage: deadlock_demo.py <path-to-lsp-binary> [options]

Launches the UNMODIFIED lsp binary, speaks LSP over stdio and sends

    initialize / initialized
    textDocument/didOpen     (large document)
    [--gap seconds pause]
    textDocument/didChange   (full sync, same size document)   x --changes
    textDocument/documentSymbol   (request, id 100)
    shutdown                      (request, id 101)

and then waits up to --timeout seconds for the two responses.

exit 0  : server answered (prints OK)
exit 1  : server never answered within the timeout (prints DEADLOCK)
exit 2  : usage / unexpected error (server crashed, ...)

With --gap 0 (default) the didChange reaches the main loop while the
diagnostics task spawned by didOpen is still computing -> hang expected.
With a gap long enough for the first diagnostics to be published
(--gap wait  waits for the publishDiagnostics explicitly) -> control, no hang.

--gdb   : on DEADLOCK, run `gdb -p PID -batch -ex "thread apply all bt"` and
          print the output before killing the server.
--keep  : on DEADLOCK, do not kill the server (prints its pid).
"""
import argparse
import json
import os
import queue
import subprocess
import sys
import tempfile
import threading
import time

T0 = time.monotonic()


def log(msg):
    sys.stdout.write("[%8.3fs] %s\n" % (time.monotonic() - T0, msg))
    sys.stdout.flush()


def make_doc(n, salt):
    """n class/def pairs; syntactically and semantically valid TableGen."""
    out = ["// generated, salt=%d\n" % salt, "class Base<int v> { int Value = v; }\n"]
    for i in range(n):
        out.append("class C%d<int a> : Base<a> { int X = a; string S = \"s%d\"; }\n" % (i, i))
        out.append("def D%d : C%d<%d>;\n" % (i, i, i + salt))
    return "".join(out)


def frame(obj):
    body = json.dumps(obj).encode("utf-8")
    return b"Content-Length: %d\r\n\r\n" % len(body) + body


def reader(stream, q):
    try:
        while True:
            length = None
            while True:
                line = stream.readline()
                if not line:
                    q.put(None)
                    return
                line = line.strip()
                if not line:
                    break
                k, _, v = line.partition(b":")
                if k.lower() == b"content-length":
                    length = int(v)
            body = stream.read(length)
            q.put((time.monotonic(), json.loads(body)))
    except Exception as e:  # pragma: no cover
        q.put(None)
        log("reader error: %r" % (e,))


def writer(stream, wq):
    """All writes happen here so a blocked pipe can never block the watchdog."""
    while True:
        item = wq.get()
        if item is None:
            return
        label, data = item
        try:
            stream.write(data)
            stream.flush()
            log("sent  %s (%d bytes)" % (label, len(data)))
        except Exception as e:
            log("write of %s failed: %r" % (label, e))
            return


def thread_states(pid):
    rows = []
    tdir = "/proc/%d/task" % pid
    try:
        for tid in sorted(os.listdir(tdir), key=int):
            def rd(name):
                try:
                    with open("%s/%s/%s" % (tdir, tid, name)) as f:
                        return f.read().strip()
                except Exception as e:
                    return "?"
            st = rd("stat")
            state = st.rsplit(")", 1)[1].split()[0] if ")" in st else "?"
            rows.append("  tid %s comm=%-16s state=%s wchan=%s" % (tid, rd("comm"), state, rd("wchan")))
    except Exception as e:
        rows.append("  (cannot read %s: %r)" % (tdir, e))
    return "\n".join(rows)


def main():
    ap = argparse.ArgumentParser()
    ap.add_argument("lsp")
    ap.add_argument("--defs", type=int, default=20000, help="number of class/def pairs (default 20000, ~1.6 MB)")
    ap.add_argument("--changes", type=int, default=1)
    ap.add_argument("--gap", default="0", help="seconds between notifications, or 'wait' = wait for publishDiagnostics")
    ap.add_argument("--timeout", type=float, default=60.0)
    ap.add_argument("--gdb", action="store_true")
    ap.add_argument("--keep", action="store_true")
    ap.add_argument("--stderr", default=None, help="file for server stderr (default: discard)")
    args = ap.parse_args()

    tmpdir = tempfile.mkdtemp(prefix="tdlsp-demo-")
    path = os.path.join(tmpdir, "main.td")
    uri = "file://" + path
    docs = [make_doc(args.defs, s) for s in range(args.changes + 1)]
    with open(path, "w") as f:
        f.write(docs[0])
    log("document: %d class/def pairs, %d bytes, uri=%s" % (args.defs, len(docs[0]), uri))

    env = dict(os.environ)
    env.pop("INCLUDE_DIR", None)
    errf = open(args.stderr, "wb") if args.stderr else subprocess.DEVNULL
    proc = subprocess.Popen([args.lsp], stdin=subprocess.PIPE, stdout=subprocess.PIPE, stderr=errf, env=env)
    log("server pid %d" % proc.pid)

    rq = queue.Queue()
    wq = queue.Queue()
    threading.Thread(target=reader, args=(proc.stdout, rq), daemon=True).start()
    threading.Thread(target=writer, args=(proc.stdin, wq), daemon=True).start()

    pending = {}       # id -> method
    answered = {}      # id -> time
    diag_versions = []

    def send(label, obj):
        wq.put((label, frame(obj)))

    def request(id_, method, params):
        pending[id_] = method
        send("%s#%d" % (method, id_), {"jsonrpc": "2.0", "id": id_, "method": method, "params": params})

    def notify(label, method, params):
        send(label, {"jsonrpc": "2.0", "method": method, "params": params})

    def pump(deadline, until):
        """process incoming messages until until() is true or deadline; returns until()"""
        while not until():
            left = deadline - time.monotonic()
            if left <= 0:
                return False
            try:
                item = rq.get(timeout=min(left, 1.0))
            except queue.Empty:
                if proc.poll() is not None:
                    log("server exited with code %r" % proc.returncode)
                    return until()
                continue
            if item is None:
                log("server closed stdout (exit code %r)" % proc.poll())
                return until()
            _, msg = item
            if "id" in msg and "method" not in msg:
                answered[msg["id"]] = time.monotonic()
                what = "error=%s" % json.dumps(msg["error"]) if "error" in msg else "result(%d bytes)" % len(json.dumps(msg.get("result")))
                log("recv  response id=%s (%s) %s" % (msg["id"], pending.get(msg["id"]), what))
            elif msg.get("method") == "textDocument/publishDiagnostics":
                p = msg["params"]
                diag_versions.append(p.get("version"))
                log("recv  publishDiagnostics version=%s n=%d" % (p.get("version"), len(p["diagnostics"])))
            else:
                log("recv  %s" % msg.get("method"))
        return True

    # --- handshake -------------------------------------------------------
    request(1, "initialize", {"processId": None, "rootUri": None, "capabilities": {}})
    if not pump(time.monotonic() + 20, lambda: 1 in answered):
        log("no initialize response -- environment problem")
        proc.kill()
        return 2
    notify("initialized", "initialized", {})

    def gap(expected_diag_count):
        if args.gap == "wait":
            ok = pump(time.monotonic() + 600, lambda: len(diag_versions) >= expected_diag_count)
            log("gap: waited for publishDiagnostics #%d -> %s" % (expected_diag_count, ok))
        else:
            g = float(args.gap)
            if g > 0:
                pump(time.monotonic() + g, lambda: False)

    # --- the racy sequence -----------------------------------------------
    notify("didOpen", "textDocument/didOpen",
           {"textDocument": {"uri": uri, "languageId": "tablegen", "version": 0, "text": docs[0]}})
    for i in range(1, args.changes + 1):
        gap(i)
        notify("didChange v%d" % i, "textDocument/didChange",
               {"textDocument": {"uri": uri, "version": i}, "contentChanges": [{"text": docs[i]}]})
    gap(args.changes + 1)
    request(100, "textDocument/documentSymbol", {"textDocument": {"uri": uri}})
    request(101, "shutdown", None)

    t_start = time.monotonic()
    ok = pump(t_start + args.timeout, lambda: 100 in answered and 101 in answered)
    log("publishDiagnostics versions received: %r (expected %r)" % (diag_versions, list(range(args.changes + 1))))

    if ok:
        log("OK: server answered documentSymbol and shutdown after %.1fs" % (time.monotonic() - t_start))
        notify("exit", "exit", None)
        wq.put(None)
        try:
            proc.wait(timeout=10)
        except subprocess.TimeoutExpired:
            proc.kill()
        print("OK")
        return 0

    if proc.poll() is not None:
        log("server died (exit code %r) -- not a deadlock" % proc.returncode)
        print("CRASH")
        return 2

    log("no response to documentSymbol(id=100)/shutdown(id=101) within %.0fs; answered=%r" % (args.timeout, sorted(answered)))
    # is it burning CPU (still computing) or truly asleep?
    def cpu_ticks():
        with open("/proc/%d/stat" % proc.pid) as f:
            parts = f.read().rsplit(")", 1)[1].split()
        return int(parts[11]) + int(parts[12])
    try:
        c0 = cpu_ticks(); time.sleep(2.0); c1 = cpu_ticks()
        log("server CPU ticks consumed during 2s of observation: %d (0 => all threads asleep)" % (c1 - c0))
        log("thread states:\n" + thread_states(proc.pid))
    except Exception as e:
        log("could not sample /proc: %r" % (e,))
    if args.gdb:
        try:
            out = subprocess.run(["gdb", "-p", str(proc.pid), "-batch", "-ex", "set pagination off",
                                  "-ex", "thread apply all bt"], stdout=subprocess.PIPE,
                                 stderr=subprocess.STDOUT, timeout=600).stdout.decode("utf-8", "replace")
            print("===== gdb: thread apply all bt =====")
            print(out)
            print("===== end gdb =====")
        except Exception as e:
            log("gdb failed: %r" % (e,))
    if args.keep:
        log("leaving server running, pid %d" % proc.pid)
    else:
        proc.kill()
    print("DEADLOCK")
    return 1


if __name__ == "__main__":
    try:
        rc = main()
    except SystemExit:
        raise
    except Exception as e:
        log("driver error: %r" % (e,))
        rc = 2
    sys.stdout.flush()
    os._exit(rc)
