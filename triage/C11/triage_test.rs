    async fn triage_file_that_leaves_the_workspace_is_cleared() {
        let mut s = Session::start();
        let main = uri("main.td");
        let defs = uri("defs.td");
        s.open(&defs, 1, "def X : Base;");
        s.settle().await;
        s.open(&main, 1, "include \"defs.td\"");
        s.settle().await;
        assert_eq!(s.last()[&defs], vec!["class not found: Base".to_string()]);
        // the include is removed: defs.td is no longer part of the workspace rooted at main.td
        s.change(&main, 2, "class Other;");
        s.settle().await;
        println!("TRIAGE last for defs.td = {:?}", s.last()[&defs]);
        assert_eq!(s.last()[&defs], Vec::<String>::new());
    }
