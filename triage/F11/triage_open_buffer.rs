//! Triage test ("editor buffers are the source of truth"): an included file
//! that is open in the editor with unsaved text must keep that text when the
//! include graph is walked again because another document changed.
use std::fs;
use std::ops::ControlFlow;
use std::path::PathBuf;
use std::time::Duration;

use async_lsp::lsp_types::{
    notification, DidChangeTextDocumentParams, DidOpenTextDocumentParams, DocumentSymbolParams,
    DocumentSymbolResponse, FoldingRangeParams, InitializeParams, InitializedParams,
    TextDocumentContentChangeEvent, TextDocumentIdentifier, TextDocumentItem, Url,
    VersionedTextDocumentIdentifier,
};
use async_lsp::router::Router;
use async_lsp::{LanguageServer, ServerSocket};
use futures::channel::mpsc;
use futures::{AsyncReadExt, StreamExt};
use tokio_util::compat::TokioAsyncReadCompatExt;
use tower::ServiceBuilder;

use lsp::server::Server;

const MEMORY_CHANNEL_SIZE: usize = 64 << 10;
const TIMEOUT: Duration = Duration::from_secs(20);
const QUIET: Duration = Duration::from_millis(300);

struct Session {
    server: ServerSocket,
    dir: PathBuf,
    /// (uri, version) of every publishDiagnostics notification received
    diag_rx: mpsc::UnboundedReceiver<(Url, Option<i32>)>,
    /// number of didOpen/didChange notifications sent so far
    sent: i32,
}

impl Session {
    /// Starts the real server behind an in-memory loopback and creates a
    /// fresh directory with the given on-disk files.
    async fn start(name: &str, disk: &[(&str, &str)]) -> Self {
        let dir = std::env::temp_dir().join(format!("triage-open-buffer-{}-{}", name, std::process::id()));
        let _ = fs::remove_dir_all(&dir);
        fs::create_dir_all(&dir).unwrap();
        for (file, text) in disk {
            fs::write(dir.join(file), text).unwrap();
        }

        let (server_main, _client) = async_lsp::MainLoop::new_server(|client| {
            ServiceBuilder::new().service(Server::new_router(client))
        });
        let (diag_tx, diag_rx) = mpsc::unbounded();
        let (client_main, server) = async_lsp::MainLoop::new_client(|_server| {
            let mut router = Router::new(diag_tx);
            router.notification::<notification::PublishDiagnostics>(|tx, params| {
                let _ = tx.unbounded_send((params.uri, params.version));
                ControlFlow::Continue(())
            });
            ServiceBuilder::new().service(router)
        });

        let (server_stream, client_stream) = tokio::io::duplex(MEMORY_CHANNEL_SIZE);
        let (server_rx, server_tx) = server_stream.compat().split();
        tokio::spawn(async move {
            let _ = server_main.run_buffered(server_rx, server_tx).await;
        });
        let (client_rx, client_tx) = client_stream.compat().split();
        tokio::spawn(async move {
            let _ = client_main.run_buffered(client_rx, client_tx).await;
        });

        let mut this = Self {
            server,
            dir,
            diag_rx,
            sent: 0,
        };
        tokio::time::timeout(
            TIMEOUT,
            this.server.initialize(InitializeParams::default()),
        )
        .await
        .expect("initialize timed out")
        .unwrap();
        this.server.initialized(InitializedParams {}).unwrap();
        this
    }

    fn path(&self, file: &str) -> PathBuf {
        self.dir.join(file)
    }

    fn uri(&self, file: &str) -> Url {
        Url::from_file_path(self.path(file)).unwrap()
    }

    /// Waits until the server has finished publishing the diagnostics for the
    /// most recent didOpen/didChange. The server computes them on a background
    /// task; sending the next notification while that task is still running
    /// is a different scenario (and not what these tests are about), so every
    /// step of the session is fully settled before the next one starts.
    async fn settle(&mut self) {
        self.sent += 1;
        let wanted = self.sent - 1; // the server numbers its batches from 0
        let mut seen_wanted = false;
        loop {
            let wait = if seen_wanted { QUIET } else { TIMEOUT };
            match tokio::time::timeout(wait, self.diag_rx.next()).await {
                Ok(Some((_, version))) => seen_wanted |= version == Some(wanted),
                Ok(None) => panic!("client loop stopped"),
                Err(_) if seen_wanted => return,
                Err(_) => panic!("no diagnostics published for notification #{wanted}"),
            }
        }
    }

    async fn open(&mut self, file: &str, version: i32, text: &str) {
        self.server
            .did_open(DidOpenTextDocumentParams {
                text_document: TextDocumentItem::new(
                    self.uri(file),
                    "tablegen".into(),
                    version,
                    text.into(),
                ),
            })
            .unwrap();
        self.settle().await;
    }

    async fn change(&mut self, file: &str, version: i32, text: &str) {
        self.server
            .did_change(DidChangeTextDocumentParams {
                text_document: VersionedTextDocumentIdentifier::new(self.uri(file), version),
                content_changes: vec![TextDocumentContentChangeEvent {
                    range: None,
                    range_length: None,
                    text: text.into(),
                }],
            })
            .unwrap();
        self.settle().await;
    }

    /// Names of the top-level symbols the server reports for `file`
    /// (computed from the index of the current root).
    async fn symbols(&mut self, file: &str) -> Vec<String> {
        let params = DocumentSymbolParams {
            text_document: TextDocumentIdentifier::new(self.uri(file)),
            work_done_progress_params: Default::default(),
            partial_result_params: Default::default(),
        };
        let resp = tokio::time::timeout(TIMEOUT, self.server.document_symbol(params))
            .await
            .expect("documentSymbol timed out")
            .unwrap();
        match resp {
            Some(DocumentSymbolResponse::Nested(symbols)) => {
                symbols.into_iter().map(|it| it.name).collect()
            }
            Some(DocumentSymbolResponse::Flat(symbols)) => {
                symbols.into_iter().map(|it| it.name).collect()
            }
            None => Vec::new(),
        }
    }

    /// Number of folding ranges for `file` (computed from that file's own
    /// text in the database, whether or not it belongs to the current root).
    async fn fold_count(&mut self, file: &str) -> usize {
        let params = FoldingRangeParams {
            text_document: TextDocumentIdentifier::new(self.uri(file)),
            work_done_progress_params: Default::default(),
            partial_result_params: Default::default(),
        };
        tokio::time::timeout(TIMEOUT, self.server.folding_range(params))
            .await
            .expect("foldingRange timed out")
            .unwrap()
            .map(|it| it.len())
            .unwrap_or(0)
    }

    fn cleanup(&self) {
        let _ = fs::remove_dir_all(&self.dir);
    }
}

const ROOT_DISK: &str = "include \"inc.td\"\nclass RootDisk;\n";
const ROOT_CHANGED: &str = "include \"inc.td\"\nclass RootDisk;\nclass RootMore;\n";
const INC_DISK: &str = "class IncDisk;\n";
const INC_EDITOR: &str = "class IncEditorA;\nclass IncEditorB;\n";

fn editor_symbols() -> Vec<String> {
    vec!["IncEditorA".to_string(), "IncEditorB".to_string()]
}

/// Steps 1-3 of the scenario.
async fn start(name: &str) -> Session {
    // step 1: files on disk
    let mut s = Session::start(name, &[("root.td", ROOT_DISK), ("inc.td", INC_DISK)]).await;
    // step 2: the root is opened with its on-disk text; inc.td is not open
    // yet, so its on-disk text is what the server sees.
    s.open("root.td", 1, ROOT_DISK).await;
    assert_eq!(s.symbols("inc.td").await, vec!["IncDisk"]);
    // step 3: inc.td is opened with unsaved editor text
    s.open("inc.td", 1, INC_EDITOR).await;
    s
}

/// step 4 = didChange(root.td): the include graph of root.td is walked again
/// while inc.td is open with unsaved text.
#[tokio::test(flavor = "multi_thread", worker_threads = 2)]
async fn change_root_keeps_open_include_text() {
    let mut s = start("change-root").await;

    s.change("root.td", 2, ROOT_CHANGED).await;
    let symbols = s.symbols("inc.td").await;
    let folds = s.fold_count("inc.td").await;
    let root_symbols = s.symbols("root.td").await;
    s.cleanup();
    println!("observed[change_root]: symbols(inc.td)={symbols:?} folds(inc.td)={folds} symbols(root.td)={root_symbols:?}");

    assert_eq!(root_symbols, vec!["RootDisk", "RootMore"]);
    assert_eq!(symbols, editor_symbols());
    assert_eq!(folds, 2);
}

/// step 4 = didOpen(root.td) again (same text as before).
#[tokio::test(flavor = "multi_thread", worker_threads = 2)]
async fn reopen_root_keeps_open_include_text() {
    let mut s = start("reopen-root").await;

    s.open("root.td", 2, ROOT_DISK).await;
    let symbols = s.symbols("inc.td").await;
    let folds = s.fold_count("inc.td").await;
    let root_symbols = s.symbols("root.td").await;
    s.cleanup();
    println!("observed[reopen_root]: symbols(inc.td)={symbols:?} folds(inc.td)={folds} symbols(root.td)={root_symbols:?}");

    assert_eq!(root_symbols, vec!["RootDisk"]);
    assert_eq!(symbols, editor_symbols());
    assert_eq!(folds, 2);
}

/// Control: step 4 omitted. Nothing walks the include graph of root.td after
/// inc.td was opened, so the editor text of inc.td is in effect.
#[tokio::test(flavor = "multi_thread", worker_threads = 2)]
async fn control_no_step4() {
    let mut s = start("control").await;

    let symbols = s.symbols("inc.td").await;
    let folds = s.fold_count("inc.td").await;
    s.cleanup();
    println!("observed[control]: symbols(inc.td)={symbols:?} folds(inc.td)={folds}");

    assert_eq!(symbols, editor_symbols());
    assert_eq!(folds, 2);
}
