// crates/ide/tests/untyped_required_arg.rs - fails on /repo a84309f (first test), passes with candidate_fix.diff
use ide::{handlers::diagnostics, tests};

fn diagnostic_messages(source: &str) -> Vec<String> {
    let (db, _) = tests::single_file(source);
    diagnostics::exec(&db).into_values().flatten().map(|diag| diag.message).collect()
}

#[test]
fn given_argument_without_inferred_type_is_not_reported_missing() {
    let messages = diagnostic_messages(
        "class Base<int width> {\n  int Width = width;\n}\nclass Sized<bit wide> : Base<!cond(wide: 64, true: 32)>;\ndef narrow : Sized<0>;\n",
    );
    assert!(messages.is_empty(), "a well-formed program must not be diagnosed: {messages:?}");
}

#[test]
fn missing_argument_is_still_reported() {
    let messages = diagnostic_messages(
        "class Base<int width, int height> {\n  int Width = width;\n}\nclass Sized<bit wide> : Base<!cond(wide: 64, true: 32)>;\n",
    );
    assert!(messages.iter().any(|m| m.contains("value not specified for template argument 'height'")), "{messages:?}");
    assert!(!messages.iter().any(|m| m.contains("'width'")), "{messages:?}");
}
